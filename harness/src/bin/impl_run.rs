//! Runs the implementation (the crate in /repo's working tree) on generated cases and prints one
//! line per case: the inputs and what the implementation returned.  The OCaml driver replays the
//! same lines on the extracted Coq model and on the Spec oracles.
use lambda_calculus::*;
use lcverif_harness::*;
use lambda_calculus::reduction::Order;
use std::io::Write;
use std::panic::{catch_unwind, AssertUnwindSafe};
use std::sync::atomic::{AtomicU64, Ordering};
use std::sync::Mutex;

static PROGRESS: AtomicU64 = AtomicU64::new(0);
static CURRENT: Mutex<String> = Mutex::new(String::new());

static TRACE: std::sync::atomic::AtomicBool = std::sync::atomic::AtomicBool::new(false);
fn begin(desc: String) {
    if TRACE.load(Ordering::Relaxed) {
        eprintln!("CUR {}", desc);
    }
    *CURRENT.lock().unwrap() = desc;
    PROGRESS.fetch_add(1, Ordering::SeqCst);
}

struct Out {
    w: std::io::BufWriter<std::io::Stdout>,
    n: usize,
}
impl Out {
    fn line(&mut self, s: String) {
        writeln!(self.w, "{}", s).unwrap();
        self.n += 1;
    }
}

fn guarded<T>(f: impl FnOnce() -> T) -> Result<T, String> {
    catch_unwind(AssertUnwindSafe(f)).map_err(|e| {
        if let Some(s) = e.downcast_ref::<&str>() {
            s.to_string()
        } else if let Some(s) = e.downcast_ref::<String>() {
            s.clone()
        } else {
            "panic".to_string()
        }
    })
}

fn universe(tier: &str, small: usize, big: usize, maxidx: usize) -> Vec<Term> {
    enumerate_upto(if tier == "thorough" { big } else { small }, maxidx)
}

fn randoms(rng: &mut Rng, n: usize, maxsize: usize, ud: bool) -> Vec<Term> {
    (0..n)
        .map(|_| {
            let b = 2 + rng.below(maxsize as u64) as usize;
            let free = rng.below(4) as usize;
            random_term(rng, b, 0, free, ud)
        })
        .collect()
}

// ------------------------------------------------------------------ apply (C02, C08)
fn suite_apply(out: &mut Out, tier: &str, rng: &mut Rng) {
    let us = universe(tier, 4, 5, 3);
    let args = universe(tier, 3, 4, 3);
    let mut pairs: Vec<(Term, Term)> = Vec::new();
    for t in &us {
        for a in &args {
            pairs.push((t.clone(), a.clone()));
        }
    }
    let nrand = if tier == "thorough" { 20000 } else { 2500 };
    for _ in 0..nrand {
        // deep binders, free indices crossing several binders
        let d = rng.below(6) as usize;
        let b = 3 + rng.below(40) as usize;
        let body = random_term(rng, b, 1 + d, 6, true);
        let mut t = body;
        for _ in 0..d {
            t = abs(t);
        }
        let t = if rng.chance(9, 10) { abs(t) } else { t };
        let b = 1 + rng.below(12) as usize;
        let a = random_term(rng, b, 0, 6, true);
        pairs.push((t, a));
    }
    // very deep binder nesting: the bound variable (and an outer reference next to it) below d binders
    for d in [200usize, 1023, 1024, 1025, 1500, 2600] {
        let mut body = app(Var(d + 1), app(Var(d + 3), Var(d)));
        for _ in 0..d {
            body = abs(body);
        }
        pairs.push((abs(body.clone()), abs(app(Var(1), Var(2)))));
        pairs.push((abs(body), Var(5)));
    }
    for (t, a) in pairs {
        begin(format!("apply {} {}", ser(&t), ser(&a)));
        let mut recv = t.clone();
        let a0 = a.clone();
        let r = guarded(|| recv.apply(&a));
        let res = match r {
            Ok(Ok(())) => format!("ok {}", ser(&recv)),
            Ok(Err(e)) => format!("err {:?} {}", e, ser(&recv)),
            Err(p) => format!("panic {}", p.replace(['\t', '\n'], " ")),
        };
        let arg_same = a == a0;
        out.line(format!("apply\t{}\t{}\t{}\t{}", ser(&t), ser(&a), res, arg_same));
    }
}

// ------------------------------------------------------------------ reduce (C01, C03, C04, C05, C08)
fn reduce_line(out: &mut Out, o: Order, limit: usize, t: &Term) -> Option<(Term, usize)> {
    begin(format!("reduce {} {} {}", order_name(o), limit, ser(t)));
    let mut u = t.clone();
    match guarded(|| u.reduce(o, limit)) {
        Ok(c) => {
            out.line(format!("reduce\t{}\t{}\t{}\t{}\t{}", order_name(o), limit, ser(t), ser(&u), c));
            // the free function beta is reduce on an owned term
            match guarded(|| beta(t.clone(), o, limit)) {
                Ok(b) if b == u => {}
                Ok(b) => out.line(format!("reduce\t{}\t{}\t{}\tpanic beta() returns {} where reduce() leaves {}\t0", order_name(o), limit, ser(t), ser(&b), ser(&u))),
                Err(p) => out.line(format!("reduce\t{}\t{}\t{}\tpanic beta(): {}\t0", order_name(o), limit, ser(t), p.replace(['\t', '\n'], " "))),
            }
            Some((u, c))
        }
        Err(p) => {
            out.line(format!("reduce\t{}\t{}\t{}\tpanic {}\t0", order_name(o), limit, ser(t), p.replace(['\t', '\n'], " ")));
            None
        }
    }
}

/// Stepwise probe on a clone: how many steps can be made before the term exceeds `max_size`
/// (`safe`), and whether the reduction terminated within `max_steps` (`Some(total)`).
fn probe(o: Order, t: &Term, max_steps: usize, max_size: usize) -> (usize, Option<usize>) {
    let mut u = t.clone();
    let mut done = 0;
    while done < max_steps {
        let chunk = if done < 17 { 1 } else { 16 };
        begin(format!("probe {} {}", order_name(o), ser(t)));
        match guarded(|| u.reduce(o, chunk)) {
            Ok(c) => {
                if size(&u) > max_size {
                    return (done, None);
                }
                done += c;
                if c < chunk {
                    return (done, Some(done));
                }
            }
            Err(_) => return (done, None),
        }
    }
    (done, None)
}

fn suite_reduce(out: &mut Out, tier: &str, rng: &mut Rng) {
    let mut terms = universe(tier, 6, 7, 3);
    let nrand = if tier == "thorough" { 12000 } else { 1200 };
    terms.extend(randoms(rng, nrand, 45, true));
    let max_steps = if tier == "thorough" { 600 } else { 250 };
    let limits = [1usize, 2, 3, 5, 17];
    for t in &terms {
        for (o, _) in ORDERS.iter() {
            let (safe, total) = probe(*o, t, max_steps, 2000);
            if total.is_some() {
                reduce_line(out, *o, 0, t);
            }
            for &l in &limits {
                if l <= safe + 1 && (l <= safe || total.is_some()) {
                    reduce_line(out, *o, l, t);
                }
            }
            if safe > 17 && total.is_none() {
                reduce_line(out, *o, safe, t);
            }
        }
    }
}

// ------------------------------------------------------------------ histories (C04, C06)
fn suite_limits(out: &mut Out) {
    // limits at the far end of usize behave like any limit that is never reached
    let terms = [
        app(abs(Var(1)), abs(Var(1))),
        app(app(abs(abs(app(Var(2), Var(1)))), abs(Var(1))), app(abs(Var(1)), Var(3))),
        app(abs(app(Var(1), Var(1))), abs(app(abs(Var(1)), Var(1)))),
        3usize.into_church(),
    ];
    for t in &terms {
        for (o, oname) in ORDERS.iter() {
            let mut base = t.clone();
            begin(format!("biglimit {} {}", oname, ser(t)));
            let c0 = match guarded(|| base.reduce(*o, 0)) { Ok(c) => c, Err(_) => continue };
            for lim in [usize::MAX, usize::MAX - 1, 1usize << 63, (1usize << 63) - 1, (1usize << 63) + 1, 1usize << 32, (1usize << 32) + 1, 1usize << 31] {
                let mut u = t.clone();
                let r = guarded(|| u.reduce(*o, lim));
                let ok = matches!(r, Ok(c) if c == c0) && u == base;
                out.line(format!("biglimit\t{}\t{}\t{}\t{}\t{}", oname, lim, ser(t), c0, ok));
            }
        }
    }
    // a run of 2^17 contractions: the count of one unlimited call equals the number of redexes and the sum of chunked calls
    let mut tree = app(abs(Var(1)), Var(2));
    for _ in 0..17 {
        tree = app(tree.clone(), tree);
    }
    for (o, oname) in ORDERS.iter() {
        if !matches!(*oname, "NOR" | "HNO" | "APP" | "HAP" | "CBV") {
            continue;
        }
        begin(format!("longrun {}", oname));
        let mut a = tree.clone();
        let c0 = guarded(|| a.reduce(*o, 0)).unwrap_or(usize::MAX);
        let mut b = tree.clone();
        let mut sum = 0usize;
        loop {
            let c = guarded(|| b.reduce(*o, 50_000)).unwrap_or(0);
            sum += c;
            if c < 50_000 {
                break;
            }
        }
        out.line(format!("longrun\t{}\t{}\t{}\t{}\t{}", oname, 1usize << 17, c0, sum, a == b));
    }
}

fn suite_history(out: &mut Out, tier: &str, rng: &mut Rng) {
    suite_limits(out);
    let n = if tier == "thorough" { 30000 } else { 3000 };
    let mut small = universe(tier, 5, 6, 2);
    small.retain(|t| size(t) >= 4);
    for k in 0..n {
        let t = if k % 3 == 0 && !small.is_empty() {
            small[rng.below(small.len() as u64) as usize].clone()
        } else {
            let b = 4 + rng.below(40) as usize;
            let free = rng.below(3) as usize;
            random_term(rng, b, 0, free, true)
        };
        let len = 1 + rng.below(7) as usize;
        let same_order = rng.chance(1, 2);
        let o0 = ORDERS[rng.below(7) as usize].0;
        let mut hist = Vec::new();
        let mut cur = t.clone();
        let mut counts = Vec::new();
        let mut ok = true;
        for _ in 0..len {
            let o = if same_order { o0 } else { ORDERS[rng.below(7) as usize].0 };
            let mut limit = 1 + rng.below(6) as usize;
            if size(&cur) > 1500 {
                break;
            }
            if rng.chance(1, 6) {
                // an unlimited call, if it terminates
                if probe(o, &cur, 300, 1500).1.is_some() {
                    limit = 0;
                }
            }
            if limit != 0 {
                // make sure the limited call cannot blow the term up
                let (safe, total) = probe(o, &cur, limit, 1500);
                if safe < limit && total.is_none() {
                    break;
                }
            }
            begin(format!("history {} {} {}", order_name(o), limit, ser(&cur)));
            match guarded(|| cur.reduce(o, limit)) {
                Ok(c) => {
                    hist.push(format!("{}:{}", order_name(o), limit));
                    counts.push(c.to_string());
                }
                Err(_) => {
                    ok = false;
                    break;
                }
            }
        }
        if ok {
            out.line(format!("history\t{}\t{}\t{}\t{}", ser(&t), hist.join(","), ser(&cur), counts.join(",")));
        } else {
            out.line(format!("history\t{}\t{}\tpanic\t", ser(&t), hist.join(",")));
        }
    }
}

// ------------------------------------------------------------------ normalisation (C07)
// terms with a known normal form, built backwards from normal forms by beta-expansion
fn omega() -> Term {
    let w = abs(app(Var(1), Var(1)));
    app(w.clone(), w)
}
fn random_nf(rng: &mut Rng, budget: usize, depth: usize, free: usize) -> Term {
    // lambda^a. x n1 .. nk
    let a = rng.below(3) as usize;
    let d = depth + a;
    let k = if budget > 2 { rng.below(5.min(budget as u64 - 1)) as usize } else { 0 };
    let hd = if d > 0 && (free == 0 || rng.chance(3, 4)) {
        Var(1 + rng.below(d as u64) as usize)
    } else {
        Var(d + 1 + rng.below(free.max(1) as u64) as usize)
    };
    let mut t = hd;
    for _ in 0..k {
        t = app(t, random_nf(rng, budget / (k + 1), d, free));
    }
    for _ in 0..a {
        t = abs(t);
    }
    t
}
/// shift free indices above cutoff `c` by `d`
fn shift(t: &Term, d: usize, c: usize) -> Term {
    match t {
        Var(i) => {
            if *i > c {
                Var(i + d)
            } else {
                Var(*i)
            }
        }
        Abs(b) => abs(shift(b, d, c + 1)),
        App(p) => app(shift(&p.0, d, c), shift(&p.1, d, c)),
    }
}
/// one random beta-expansion somewhere in t: replace a subterm s by (\x. s') a with s'[x:=a] = s
fn expand(rng: &mut Rng, t: &Term, depth: usize) -> Term {
    let here = match t {
        Var(_) => true,
        _ => rng.chance(1, 4),
    };
    if here {
        let s1 = shift(t, 1, 0);
        match rng.below(5) {
            // (\x. s) junk   -- erased argument, possibly diverging
            0 => app(abs(s1), omega()),
            1 => app(abs(s1), app(Var(depth + 1), omega())),
            // (\x. x) s
            2 => app(abs(Var(1)), t.clone()),
            // (\x. s) I
            3 => app(abs(s1), abs(Var(1))),
            // K s omega
            _ => app(app(abs(abs(Var(2))), t.clone()), omega()),
        }
    } else {
        match t {
            Var(_) => t.clone(),
            Abs(b) => abs(expand(rng, b, depth + 1)),
            App(p) => {
                if rng.chance(1, 2) {
                    app(expand(rng, &p.0, depth), p.1.clone())
                } else {
                    app(p.0.clone(), expand(rng, &p.1, depth))
                }
            }
        }
    }
}
/// plant redexes that DISCARD the variable bound `d` binders up: some subterms u become (\_. u) x.  The body then uses x
/// several times although every copy is erased later - the shape a "reduce the shared argument first" shortcut gets wrong.
fn plant_discards(rng: &mut Rng, t: &Term, d: usize, left: &mut usize) -> Term {
    if *left > 0 && rng.chance(1, 3) {
        *left -= 1;
        let inner = plant_discards(rng, t, d, left);
        return app(abs(shift(&inner, 1, 0)), Var(d + 1));
    }
    match t {
        Var(_) => t.clone(),
        Abs(b) => abs(plant_discards(rng, b, d + 1, left)),
        App(p) => app(plant_discards(rng, &p.0, d, left), plant_discards(rng, &p.1, d, left)),
    }
}
/// (\x. s') junk  where s' mentions x two or more times and discards every copy; junk has no weak head normal form
fn expand_shared_junk(rng: &mut Rng, t: &Term) -> Term {
    let s1 = shift(t, 1, 0);
    let mut left = 2 + rng.below(2) as usize;
    let mut body = plant_discards(rng, &s1, 0, &mut left);
    while left > 0 {
        left -= 1;
        body = match body {
            // keep a leading lambda prefix and the head variable in place: discard inside the operands / at the root
            Abs(b) => abs(app(abs(shift(&b, 1, 0)), Var(2))),
            other => app(abs(shift(&other, 1, 0)), Var(1)),
        };
    }
    let junk = if rng.chance(1, 2) { omega() } else { app(omega(), abs(Var(1))) };
    app(abs(body), junk)
}
/// replace some arguments of the head variable (below the lambda prefix) by diverging terms
fn poison(rng: &mut Rng, t: &Term) -> Term {
    match t {
        Abs(b) => abs(poison(rng, b)),
        App(p) => {
            let arg = if rng.chance(1, 2) {
                match rng.below(3) {
                    0 => omega(),
                    1 => app(Var(1), omega()),
                    _ => abs(omega()),
                }
            } else {
                p.1.clone()
            };
            app(poison(rng, &p.0), arg)
        }
        Var(_) => t.clone(),
    }
}
fn suite_normalise(out: &mut Out, tier: &str, rng: &mut Rng) {
    TRACE.store(true, Ordering::Relaxed);
    let n = if tier == "thorough" { 20000 } else { 2500 };
    for _ in 0..n {
        let b = 2 + rng.below(14) as usize;
        let mut nf = random_nf(rng, b, 0, 2);
        let mut t = nf.clone();
        for _ in 0..(1 + rng.below(5)) {
            t = expand(rng, &t, 0);
        }
        if rng.chance(1, 3) {
            // the argument is duplicated by the body and every copy is discarded later (possibly under binders, possibly in an
            // operand of a head variable): the normal form still exists and NOR/HNO must find it
            t = expand_shared_junk(rng, &t);
            if rng.chance(1, 2) {
                t = expand(rng, &t, 0);
            }
            if rng.chance(1, 3) {
                t = abs(abs(app(Var(2), shift(&t, 2, 0))));
                nf = abs(abs(app(Var(2), shift(&nf, 2, 0))));
            }
        }
        out.line(format!("planted\t{}\t{}", ser(&t), ser(&nf)));
        for o in [NOR, HNO, CBN, HSP] {
            // the property demands termination with limit 0; guard with a watchdog only
            reduce_line(out, o, 0, &t);
        }
        // eager orders may diverge: limited runs only
        for o in [APP, HAP, CBV] {
            let (safe, _) = probe(o, &t, 60, 2000);
            if safe > 0 {
                reduce_line(out, o, safe, &t);
            }
        }
        // a term with a head normal form but (usually) no normal form: diverging arguments of the head variable
        let hn = poison(rng, &nf);
        let mut t = hn.clone();
        for _ in 0..(1 + rng.below(4)) {
            t = expand(rng, &t, 0);
        }
        out.line(format!("planted-head\t{}\t{}", ser(&t), ser(&hn)));
        for o in [CBN, HSP] {
            reduce_line(out, o, 0, &t);
        }
    }
}

// ------------------------------------------------------------------ predicates, accessors, macros (C18, C19)
fn res_usize(r: Result<usize, term::TermError>) -> String {
    match r {
        Ok(n) => format!("ok:{}", n),
        Err(e) => format!("err:{:?}", e),
    }
}
fn res_term(r: Result<Term, term::TermError>) -> String {
    match r {
        Ok(t) => format!("ok:{}", ser(&t)),
        Err(e) => format!("err:{:?}", e),
    }
}
fn res_pair(r: Result<(Term, Term), term::TermError>) -> String {
    match r {
        Ok((a, b)) => format!("ok:{}|{}", ser(&a), ser(&b)),
        Err(e) => format!("err:{:?}", e),
    }
}
fn suite_termops(out: &mut Out, tier: &str, rng: &mut Rng) {
    let mut terms = universe(tier, 6, 7, 3);
    terms.extend(randoms(rng, if tier == "thorough" { 20000 } else { 2000 }, 30, true));
    for t in &terms {
        begin(format!("pred {}", ser(t)));
        out.line(format!(
            "pred\t{}\t{}\t{}\t{}",
            ser(t),
            t.has_free_variables(),
            t.is_supercombinator(),
            t.max_depth()
        ));
        // accessors: consuming, _ref, _mut; the receiver must be unchanged by _ref/_mut reads
        let mut fields = Vec::new();
        fields.push(res_usize(t.clone().unvar()));
        fields.push(res_usize(t.unvar_ref().map(|x| *x)));
        let mut m = t.clone();
        fields.push(res_usize(m.unvar_mut().map(|x| *x)));
        let mut unchanged = m == *t;
        fields.push(res_term(t.clone().unabs()));
        fields.push(res_term(t.unabs_ref().cloned()));
        let mut m = t.clone();
        fields.push(res_term(m.unabs_mut().map(|x| x.clone())));
        unchanged &= m == *t;
        fields.push(res_pair(t.clone().unapp()));
        fields.push(res_pair(t.unapp_ref().map(|(a, b)| (a.clone(), b.clone()))));
        let mut m = t.clone();
        fields.push(res_pair(m.unapp_mut().map(|(a, b)| (a.clone(), b.clone()))));
        unchanged &= m == *t;
        fields.push(res_term(t.clone().lhs()));
        fields.push(res_term(t.lhs_ref().cloned()));
        let mut m = t.clone();
        fields.push(res_term(m.lhs_mut().map(|x| x.clone())));
        unchanged &= m == *t;
        fields.push(res_term(t.clone().rhs()));
        fields.push(res_term(t.rhs_ref().cloned()));
        let mut m = t.clone();
        fields.push(res_term(m.rhs_mut().map(|x| x.clone())));
        unchanged &= m == *t;
        out.line(format!("acc\t{}\t{}\t{}", ser(t), fields.join("\t"), unchanged));
        // writes through the _mut forms
        let newt = app(Var(7), abs(Var(9)));
        let mut w = Vec::new();
        let mut m = t.clone();
        if let Ok(x) = m.unvar_mut() {
            *x = 42;
        }
        w.push(ser(&m));
        let mut m = t.clone();
        if let Ok(x) = m.unabs_mut() {
            *x = newt.clone();
        }
        w.push(ser(&m));
        let mut m = t.clone();
        if let Ok((x, _)) = m.unapp_mut() {
            *x = newt.clone();
        }
        w.push(ser(&m));
        let mut m = t.clone();
        if let Ok((_, y)) = m.unapp_mut() {
            *y = newt.clone();
        }
        w.push(ser(&m));
        let mut m = t.clone();
        if let Ok(x) = m.lhs_mut() {
            *x = newt.clone();
        }
        w.push(ser(&m));
        let mut m = t.clone();
        if let Ok(x) = m.rhs_mut() {
            *x = newt.clone();
        }
        w.push(ser(&m));
        out.line(format!("mutw\t{}\t{}", ser(t), w.join("\t")));
    }
    // is_isomorphic_to on pairs
    let small = universe(tier, 4, 5, 2);
    for a in &small {
        for b in &small {
            out.line(format!("iso\t{}\t{}\t{}", ser(a), ser(b), a.is_isomorphic_to(b)));
        }
    }
    for _ in 0..(if tier == "thorough" { 5000 } else { 500 }) {
        let b = 3 + rng.below(25) as usize;
        let a = random_term(rng, b, 0, 3, true);
        let b = if rng.chance(1, 2) { a.clone() } else { expand(rng, &a, 0) };
        out.line(format!("iso\t{}\t{}\t{}", ser(&a), ser(&b), a.is_isomorphic_to(&b)));
    }
    // the predicates do not depend on how far away the free variables are: move every free index by 2^32-1 .. 2^48
    {
        let us = universe(tier, 5, 5, 3);
        for t in us.iter().chain(randoms(rng, 300, 25, true).iter()) {
            for &bb in BS.iter() {
                let big = shift_free(t, bb, 0);
                let ok = big.has_free_variables() == t.has_free_variables()
                    && (has_ud(t) || big.is_supercombinator() == t.is_supercombinator())
                    && big.max_depth() == t.max_depth()
                    && big.is_isomorphic_to(&big.clone())
                    && big.is_isomorphic_to(t) == (big == *t);
                out.line(format!("metapred\t{}\t{}\t{}", bb, ser(t), ok));
            }
        }
    }
    // pairs that only differ in how their De Bruijn rendering would be split into indices (17 = "1" "1"? no: 0x11)
    for _ in 0..(if tier == "thorough" { 3000 } else { 400 }) {
        let b = 2 + rng.below(14) as usize;
        let a = random_term(rng, b, 0, 40, false);
        let shown = format!("{:?}", a);
        if let Ok(u) = parse(&shown, DeBruijn) {
            out.line(format!("iso\t{}\t{}\t{}", ser(&a), ser(&u), a.is_isomorphic_to(&u)));
            out.line(format!("iso\t{}\t{}\t{}", ser(&u), ser(&a), u.is_isomorphic_to(&a)));
        }
    }
    for (a, b) in [(Var(0x12), app(Var(1), Var(2))), (app(Var(0x21), Var(3)), app(app(Var(2), Var(1)), Var(3))), (abs(Var(0x1F)), abs(app(Var(1), Var(15))))] {
        out.line(format!("iso\t{}\t{}\t{}", ser(&a), ser(&b), a.is_isomorphic_to(&b)));
    }
    suite_deep(out);
    // app! evaluates its operands left to right (operator first), like the nested app calls it stands for
    {
        let stream = vec![Var(1), Var(2), Var(3), abs(Var(1)), Var(5)];
        let mut it = stream.clone().into_iter();
        let r3 = app!(it.next().unwrap(), it.next().unwrap(), it.next().unwrap());
        let mut it = stream.clone().into_iter();
        let r5 = app!(it.next().unwrap(), it.next().unwrap(), it.next().unwrap(), it.next().unwrap(), it.next().unwrap());
        let e3 = app(app(Var(1), Var(2)), Var(3));
        let e5 = app(app(app(app(Var(1), Var(2)), Var(3)), abs(Var(1))), Var(5));
        out.line(format!("apporder\t3\t{}\t{}", ser(&e3), ser(&r3)));
        out.line(format!("apporder\t5\t{}\t{}", ser(&e5), ser(&r5)));
    }
    // constructors and macros
    let s3 = universe(tier, 3, 3, 2);
    for a in s3.iter().take(12) {
        for b in s3.iter().take(12) {
            out.line(format!("ctor\t{}\t{}\t{}\t{}", ser(a), ser(b), ser(&abs(a.clone())), ser(&app(a.clone(), b.clone()))));
            for c in s3.iter().take(4) {
                let r2 = app!(a.clone(), b.clone());
                let r3 = app!(a.clone(), b.clone(), c.clone());
                let r4 = app!(a.clone(), b.clone(), c.clone(), b.clone());
                out.line(format!("appm\t{}\t{}|{}|{}|{}\t{}\t{}\t{}", ser(a), ser(b), ser(c), ser(b), "", ser(&r2), ser(&r3), ser(&r4)));
            }
        }
        for n in 0..6usize {
            out.line(format!("absm\t{}\t{}\t{}", n, ser(a), ser(&abs!(n, a.clone()))));
        }
    }
}


fn suite_deep(out: &mut Out) {
    // the iterative predicate / the consuming accessors stay usable on very deep terms with an ordinary (small) stack
    {
        let h = std::thread::Builder::new().stack_size(512 << 10).spawn(|| {
            let mut res = Vec::new();
            for n in [100_000usize, 400_000] {
                let mut chain = Var(1);
                for _ in 0..n {
                    chain = abs(chain);
                }
                res.push(format!("deepsc\tabs-chain\t{}\t{}", n, chain.is_supercombinator()));
                let mut open = Var(n + 1);
                for _ in 0..n {
                    open = abs(open);
                }
                res.push(format!("deepsc\tabs-chain-open\t{}\t{}", n, !open.is_supercombinator()));
                std::mem::forget(chain);
                std::mem::forget(open);
                let mut spine = Var(7);
                for k in 0..n {
                    spine = app(spine, Var(1 + k % 3));
                }
                let mut peeled = 0usize;
                while let App(_) = spine {
                    spine = spine.lhs().unwrap();
                    peeled += 1;
                }
                res.push(format!("deepsc\tlhs-spine\t{}\t{}", n, peeled == n && spine == Var(7)));
            }
            res
        });
        begin("deep terms on a 512 KiB stack: is_supercombinator, lhs".to_string());
        match h.unwrap().join() {
            Ok(lines) => {
                for l in lines {
                    out.line(l);
                }
            }
            Err(_) => out.line("deepsc\tpanic\t0\tfalse".to_string()),
        }
    }
}

// ------------------------------------------------------------------ metamorphic checks (C01, C02, C08)
// (a) UD is an inert constant: replacing it by a fresh free variable commutes with reduce / apply;
// (b) free variables are never renumbered: shifting all free indices by 2^32 commutes with reduce / apply.
fn replace_ud(t: &Term, k: usize, depth: usize) -> Term {
    match t {
        Var(0) => Var(depth + k),
        Var(i) => Var(*i),
        Abs(b) => abs(replace_ud(b, k, depth + 1)),
        App(p) => app(replace_ud(&p.0, k, depth), replace_ud(&p.1, k, depth)),
    }
}
fn shift_free(t: &Term, b: usize, depth: usize) -> Term {
    match t {
        Var(i) => Var(if *i > depth { *i + b } else { *i }),
        Abs(x) => abs(shift_free(x, b, depth + 1)),
        App(p) => app(shift_free(&p.0, b, depth), shift_free(&p.1, b, depth)),
    }
}
fn unshift_free(t: &Term, b: usize, depth: usize) -> Option<Term> {
    Some(match t {
        Var(i) => {
            if *i > depth {
                if *i > depth + b {
                    Var(*i - b)
                } else {
                    return None;
                }
            } else {
                Var(*i)
            }
        }
        Abs(x) => abs(unshift_free(x, b, depth + 1)?),
        App(p) => app(unshift_free(&p.0, b, depth)?, unshift_free(&p.1, b, depth)?),
    })
}
fn has_ud(t: &Term) -> bool {
    match t {
        Var(i) => *i == 0,
        Abs(b) => has_ud(b),
        App(p) => has_ud(&p.0) || has_ud(&p.1),
    }
}
const K: usize = 40; // a level above every free level the generators produce
const BS: [usize; 4] = [(1 << 32) - 1, 1 << 32, (1 << 32) + 1, (1 << 48) + 12345];
fn suite_meta_reduce(out: &mut Out, tier: &str, rng: &mut Rng) {
    let mut terms = universe(tier, 5, 6, 3);
    terms.extend(randoms(rng, if tier == "thorough" { 8000 } else { 1500 }, 35, true));
    for t in &terms {
        // C06 on terms with very large free indices: the normalising orders that terminate must agree
        for &bb in BS.iter() {
            let x = shift_free(t, bb, 0);
            let mut results: Vec<(&str, String)> = Vec::new();
            for (o, oname) in ORDERS.iter() {
                if !matches!(*oname, "NOR" | "HNO" | "APP" | "HAP") {
                    continue;
                }
                let (_, total) = probe(*o, t, 40, 1500);
                if total.is_none() {
                    continue;
                }
                let mut u = x.clone();
                begin(format!("meta-orders {} {}", oname, ser(&x)));
                if guarded(|| u.reduce(*o, 0)).is_ok() {
                    results.push((*oname, unshift_free(&u, bb, 0).map(|y| ser(&y)).unwrap_or(format!("ERR {}", ser(&u)))));
                }
            }
            if results.len() >= 2 {
                let agree = results.iter().all(|r| r.1 == results[0].1);
                let detail = if agree { String::new() } else { results.iter().map(|r| format!("{}={}", r.0, r.1)).collect::<Vec<_>>().join(" ; ") };
                out.line(format!("meta-orders\t{}\t{}\t{}\t{}\t{}", bb, ser(t), results.len(), agree as u8, detail));
            }
        }
        for (o, oname) in ORDERS.iter() {
            let (safe, total) = probe(*o, t, 40, 1500);
            let limit = if total.is_some() { 0 } else { safe };
            if total.is_none() && safe == 0 {
                continue;
            }
            let run = |x: &Term| -> Option<(Term, usize)> {
                let mut u = x.clone();
                begin(format!("meta {} {} {}", oname, limit, ser(x)));
                guarded(|| u.reduce(*o, limit)).ok().map(|c| (u, c))
            };
            let r1 = run(t);
            if has_ud(t) {
                let r2 = run(&replace_ud(t, K, 0));
                if let (Some((a, ca)), Some((b, cb))) = (&r1, &r2) {
                    out.line(format!("meta-ud\treduce\t{}\t{}\t{}\t{}\t{}\t{}\t{}", oname, limit, ser(t), ser(a), ca, ser(b), cb));
                } else {
                    out.line(format!("meta-ud\treduce\t{}\t{}\t{}\tpanic\t0\tpanic\t0", oname, limit, ser(t)));
                }
            }
            for &bb in BS.iter() {
                let r3 = run(&shift_free(t, bb, 0));
                if let (Some((a, ca)), Some((b, cb))) = (&r1, &r3) {
                    let u = unshift_free(b, bb, 0).map(|x| ser(&x)).unwrap_or("ERR".into());
                    out.line(format!("meta-shift\treduce\t{}\t{}\t{}\t{}\t{}\t{}\t{}", oname, limit, ser(t), ser(a), ca, u, cb));
                } else {
                    out.line(format!("meta-shift\treduce\t{}\t{}\t{}\tpanic\t0\tpanic\t0", oname, limit, ser(t)));
                }
            }
        }
    }
}
fn suite_meta_apply(out: &mut Out, tier: &str, rng: &mut Rng) {
    let us = universe(tier, 4, 5, 3);
    let args = universe(tier, 3, 3, 3);
    let mut pairs: Vec<(Term, Term)> = Vec::new();
    for t in &us {
        if let Abs(_) = t {
            for a in &args {
                pairs.push((t.clone(), a.clone()));
            }
        }
    }
    for _ in 0..(if tier == "thorough" { 10000 } else { 1500 }) {
        let d = rng.below(5) as usize;
        let b = 3 + rng.below(30) as usize;
        let mut t = random_term(rng, b, 1 + d, 5, true);
        for _ in 0..=d {
            t = abs(t);
        }
        let b = 1 + rng.below(10) as usize;
        let a = random_term(rng, b, 0, 5, true);
        pairs.push((t, a));
    }
    for (t, a) in pairs {
        let run = |x: &Term, y: &Term| -> Option<Term> {
            let mut u = x.clone();
            begin(format!("meta-apply {} {}", ser(x), ser(y)));
            match guarded(|| u.apply(y)) {
                Ok(Ok(())) => Some(u),
                _ => None,
            }
        };
        let r1 = run(&t, &a);
        if has_ud(&t) || has_ud(&a) {
            let r2 = run(&replace_ud(&t, K, 0), &replace_ud(&a, K, 0));
            match (&r1, &r2) {
                (Some(x), Some(y)) => out.line(format!("meta-ud\tapply\t-\t0\t{}|{}\t{}\t0\t{}\t0", ser(&t), ser(&a), ser(x), ser(y))),
                _ => out.line(format!("meta-ud\tapply\t-\t0\t{}|{}\tpanic\t0\tpanic\t0", ser(&t), ser(&a))),
            }
        }
        for &bb in BS.iter() {
            let r3 = run(&shift_free(&t, bb, 0), &shift_free(&a, bb, 0));
            match (&r1, &r3) {
                (Some(x), Some(y)) => {
                    let u = unshift_free(y, bb, 0).map(|z| ser(&z)).unwrap_or("ERR".into());
                    out.line(format!("meta-shift\tapply\t-\t0\t{}|{}\t{}\t0\t{}\t0", ser(&t), ser(&a), ser(x), u))
                }
                _ => out.line(format!("meta-shift\tapply\t-\t0\t{}|{}\tpanic\t0\tpanic\t0", ser(&t), ser(&a))),
            }
        }
    }
}

// ------------------------------------------------------------------ parser (C09)
fn chars_field(s: &str) -> String {
    // each character with what std says about it: code:flags:digit (flags: 1 alphabetic, 2 alphanumeric, 4 whitespace)
    let mut out = String::new();
    for (k, c) in s.chars().enumerate() {
        if k > 0 {
            out.push(' ');
        }
        let flags = (c.is_alphabetic() as u32) | ((c.is_alphanumeric() as u32) << 1) | ((c.is_whitespace() as u32) << 2);
        let d = c.to_digit(16).map(|d| d as i64).unwrap_or(-1);
        out.push_str(&format!("{}:{}:{}", c as u32, flags, d));
    }
    out
}
fn parse_result(r: Result<Result<Term, parser::ParseError>, String>) -> String {
    match r {
        Ok(Ok(t)) => format!("ok {}", ser(&t)),
        Ok(Err(parser::ParseError::InvalidCharacter((i, c)))) => format!("err IC {} {}", i, c as u32),
        Ok(Err(parser::ParseError::InvalidExpression)) => "err IE".into(),
        Ok(Err(parser::ParseError::EmptyExpression)) => "err EE".into(),
        Err(p) => format!("panic {}", p.replace(['\t', '\n'], " ")),
    }
}
fn parse_line(out: &mut Out, s: &str, classic: bool) -> String {
    begin(format!("parse {} {:?}", if classic { "Classic" } else { "DeBruijn" }, s));
    let r = guarded(|| parse(s, if classic { Classic } else { DeBruijn }));
    let res = parse_result(r);
    out.line(format!("parse\t{}\t{}\t{}", if classic { "C" } else { "D" }, chars_field(s), res));
    res
}
/// render a token sequence; `style` 0: compact (separators only where needed), 1..: random glyphs / whitespace
fn render(tokens: &[&str], rng: &mut Rng, style: u32) -> String {
    let mut s = String::new();
    let ws = [" ", "  ", "\t", "\n", " \u{a0}", "\u{3000}"];
    for (k, t) in tokens.iter().enumerate() {
        let mut piece = t.to_string();
        if style > 0 && piece.starts_with('λ') && rng.chance(1, 2) {
            piece = piece.replacen('λ', "\\", 1);
        }
        if k > 0 {
            let prev = tokens[k - 1];
            let prev_name = prev.chars().last().map(|c| c.is_alphanumeric()).unwrap_or(false) && !prev.starts_with('λ');
            let cur_start = piece.chars().next().unwrap();
            // a separator is needed between a name and a following name or 'λ' glyph (which is alphabetic)
            let need = prev_name && cur_start.is_alphanumeric() && !tokens[k].chars().all(|c| c.is_ascii_hexdigit() && tokens[0].len() == usize::MAX);
            if need {
                s.push_str(if style == 0 { " " } else { ws[rng.below(ws.len() as u64) as usize] });
            } else if style > 0 && rng.chance(1, 3) {
                s.push_str(ws[rng.below(ws.len() as u64) as usize]);
            }
        }
        s.push_str(&piece);
    }
    if style > 0 && rng.chance(1, 4) {
        s.push(' ');
    }
    s
}
fn render_dbr(tokens: &[&str], rng: &mut Rng, style: u32) -> String {
    let mut s = String::new();
    let ws = [" ", "  ", "\t", "\n", "\u{2003}"];
    for t in tokens.iter() {
        if style > 0 && rng.chance(1, 3) {
            s.push_str(ws[rng.below(ws.len() as u64) as usize]);
        }
        if style > 0 && *t == "λ" && rng.chance(1, 2) {
            s.push('\\');
        } else if style > 0 && t.len() == 1 && t.chars().all(|c| c.is_ascii_alphabetic()) && rng.chance(1, 2) {
            s.push_str(&t.to_lowercase());
        } else {
            s.push_str(t);
        }
    }
    s
}
fn all_sequences(alphabet: &[&'static str], maxlen: usize) -> Vec<Vec<&'static str>> {
    let mut out: Vec<Vec<&'static str>> = vec![vec![]];
    let mut frontier: Vec<Vec<&'static str>> = vec![vec![]];
    for _ in 0..maxlen {
        let mut next = Vec::new();
        for seq in &frontier {
            for a in alphabet {
                let mut n = seq.clone();
                n.push(*a);
                next.push(n);
            }
        }
        out.extend(next.iter().cloned());
        frontier = next;
    }
    out
}
fn suite_parse(out: &mut Out, tier: &str, rng: &mut Rng) {
    let thorough = tier == "thorough";
    // exhaustive token sequences, De Bruijn
    for seq in all_sequences(&["λ", "(", ")", "1", "2", "3"], if thorough { 7 } else { 5 }) {
        let compact = render_dbr(&seq, rng, 0);
        let r0 = parse_line(out, &compact, false);
        let varied = render_dbr(&seq, rng, 1);
        if varied != compact {
            let r1 = parse_line(out, &varied, false);
            // whitespace and the choice of glyph never change the result
            out.line(format!("same\tD\t{}\t{}\t{}\t{}", chars_field(&compact), chars_field(&varied), r0, r1));
        }
        if r0.starts_with("ok") {
            let wrapped = format!("(({}))", compact);
            let r2 = parse_line(out, &wrapped, false);
            out.line(format!("same\tD\t{}\t{}\t{}\t{}", chars_field(&compact), chars_field(&wrapped), r0, r2));
        }
    }
    // exhaustive token sequences, Classic
    for seq in all_sequences(&["λa.", "λb.", "(", ")", "a", "b", "c"], if thorough { 6 } else { 4 }) {
        let compact = render(&seq, rng, 0);
        let r0 = parse_line(out, &compact, true);
        let varied = render(&seq, rng, 1);
        if varied != compact {
            let r1 = parse_line(out, &varied, true);
            out.line(format!("same\tC\t{}\t{}\t{}\t{}", chars_field(&compact), chars_field(&varied), r0, r1));
        }
        if r0.starts_with("ok") {
            let wrapped = format!("( ({}))", compact);
            let r2 = parse_line(out, &wrapped, true);
            out.line(format!("same\tC\t{}\t{}\t{}\t{}", chars_field(&compact), chars_field(&wrapped), r0, r2));
        }
    }
    // longer well-formed inputs from random terms, and mutations of them
    let n = if thorough { 20000 } else { 2500 };
    for k in 0..n {
        let b = 3 + rng.below(30) as usize;
        let free = rng.below(3) as usize;
        let t = random_term(rng, b, 0, free, false);
        let classic = k % 2 == 0;
        let mut s: Vec<char> = if classic { format!("{}", t) } else { format!("{:?}", t) }.chars().collect();
        if k % 4 >= 2 && !s.is_empty() {
            // mutate: drop / duplicate / swap / insert
            let pos = rng.below(s.len() as u64) as usize;
            match rng.below(4) {
                0 => {
                    s.remove(pos);
                }
                1 => {
                    let c = s[pos];
                    s.insert(pos, c);
                }
                2 => {
                    let q = rng.below(s.len() as u64) as usize;
                    s.swap(pos, q);
                }
                _ => {
                    let ins = ['(', ')', 'λ', '\\', '.', ' ', 'x', '1', 'F', '0', 'g', '+', '_', 'é', 'ℵ'];
                    s.insert(pos, ins[rng.below(ins.len() as u64) as usize]);
                }
            }
        }
        let s: String = s.into_iter().collect();
        parse_line(out, &s, classic);
    }
    // arbitrary character strings: no panic, InvalidCharacter for characters that cannot start a token
    let pool: Vec<char> = "λ\\().. \t\n\u{a0}\u{2003}\u{3000}0123456789abcdefABCDEFgGxyzZ_+-*/'\"<>[]{}!?@#$%^&=|~`,;:éßƒℵαβωЖя中文字😀\u{301}\u{200b}\u{feff}²½٣".chars().collect();
    for _ in 0..(if thorough { 40000 } else { 5000 }) {
        let len = rng.below(9) as usize;
        let mut s = String::new();
        for _ in 0..len {
            if rng.chance(1, 12) {
                // any scalar value
                loop {
                    if let Some(c) = char::from_u32(rng.below(0x110000) as u32) {
                        s.push(c);
                        break;
                    }
                }
            } else {
                s.push(pool[rng.below(pool.len() as u64) as usize]);
            }
        }
        parse_line(out, &s, rng.chance(1, 2));
    }
    // words a lexer might be tempted to treat specially
    for w in ["lambda x.x", "lambda", "lambda a", "λa.lambda a", "lambdaa b", "aalambda aalambda e", "fn x.x", "fun x.x", "let x.x",
              "undefined", "λundefined.undefined", "λx.undefined x", "λ x . x", "λx . x", "λx. λ y.x", "Lambda x.x", "LAMBDA x.x", "λλ.x", "λ.x"] {
        parse_line(out, w, true);
    }
    for w in ["lambda 1", "λ 1", "λ1λ2", "λ1 λ2", "undefined", "0", "00", "λ0", "G", "1G", "λ10", "λA", "λa", "λ F f"] {
        parse_line(out, w, false);
    }
    // many binders / many distinct free names in classic notation: indices far beyond a byte are resolved exactly
    for n in [200usize, 255, 256, 257, 300, 1000, 70000] {
        begin(format!("parse-wide {}", n));
        // \x0.\x1. .. \x{n-1}. x0 x{n/2} x{n-1} g x0 h g   (g, h free: numbered n+1, n+2 by first appearance)
        let mut s = String::new();
        for k in 0..n {
            s.push_str(&format!("λx{}.", k));
        }
        s.push_str(&format!("x0 x{} x{} g x0 h g", n / 2, n - 1));
        let mut expect = app!(Var(n), Var(n - n / 2), Var(1), Var(n + 1), Var(n), Var(n + 2), Var(n + 1));
        for _ in 0..n {
            expect = abs(expect);
        }
        if n <= 300 {
            parse_line(out, &s, true);
        }
        let r = guarded(|| parse(&s, Classic));
        out.line(format!("deep\tcla-far-binders\t{}\t{}", n, matches!(r, Ok(Ok(ref t)) if *t == expect)));
        std::mem::forget(expect);
        // f0 f1 .. f{n-1} f0 f{n-1}: free names numbered in order of first appearance
        let mut s = String::new();
        let mut expect = Var(1);
        for k in 0..n {
            s.push_str(&format!("f{} ", k));
            if k > 0 {
                expect = app(expect, Var(k + 1));
            }
        }
        s.push_str(&format!("f0 f{}", n - 1));
        expect = app(app(expect, Var(1)), Var(n));
        if n <= 300 {
            parse_line(out, &s, true);
        }
        let r = guarded(|| parse(&s, Classic));
        out.line(format!("deep\tcla-wide-free\t{}\t{}", n, matches!(r, Ok(Ok(ref t)) if *t == expect)));
        std::mem::forget(expect);
    }
    // deep nesting: redundant parentheses and right-nested groups far beyond any "reasonable" depth still parse
    for depth in [1000usize, 1025, 1500, 3000, 20000] {
        let s = format!("{}1{}", "(".repeat(depth), ")".repeat(depth));
        begin(format!("parse-deep {}", depth));
        let r = guarded(|| parse(&s, DeBruijn));
        out.line(format!("deep\tdbr-parens\t{}\t{}", depth, matches!(r, Ok(Ok(Var(1))))));
        let s = format!("{}a{}", "(".repeat(depth), ")".repeat(depth));
        let r = guarded(|| parse(&s, Classic));
        out.line(format!("deep\tcla-parens\t{}\t{}", depth, matches!(r, Ok(Ok(Var(1))))));
        if depth <= 3000 {
            // 1(2(1(2( ... ))))
            let mut s = String::new();
            let mut expect = Var(1);
            for k in 0..depth {
                s.push_str(if k % 2 == 0 { "1(" } else { "2(" });
            }
            s.push('1');
            for _ in 0..depth {
                s.push(')');
            }
            for k in (0..depth).rev() {
                expect = app(Var(if k % 2 == 0 { 1 } else { 2 }), expect);
            }
            let r = guarded(|| parse(&s, DeBruijn));
            out.line(format!("deep\tdbr-right-nested\t{}\t{}", depth, matches!(r, Ok(Ok(ref t)) if *t == expect)));
            std::mem::forget(expect);
        }
    }
}

// ------------------------------------------------------------------ printers (C10, C11)
fn suite_print(out: &mut Out, tier: &str, rng: &mut Rng) {
    let thorough = tier == "thorough";
    let glyph = term::LAMBDA as u32;
    let mut terms = universe(tier, 6, 7, 4);
    terms.extend(randoms(rng, if thorough { 20000 } else { 2500 }, 40, true));
    // deep binders: names with 2 and 3 letters, free variables far above them
    for d in [25usize, 26, 27, 28, 52, 701, 702, 703, 704, 730] {
        let mut t = app(app(Var(1), Var(d)), app(Var(d + 1), Var(d + 3)));
        if d % 2 == 0 {
            t = app(t, abs(app(Var(1), Var(d + 2))));
        }
        for _ in 0..d {
            t = abs(t);
        }
        terms.push(t);
    }
    for i in [26usize, 27, 28, 676, 702, 703, 800, 18278, 18279] {
        terms.push(app(Var(i), abs(app(Var(1), Var(i + 1)))));
    }
    // long runs of binders and deep operand nesting
    for n in [255usize, 256, 257, 300, 1030] {
        let mut t = app(Var(1), app(Var(n), Var(n + 2)));
        for _ in 0..n {
            t = abs(t);
        }
        terms.push(t);
    }
    terms.push(1030usize.into_church());
    for t in &terms {
        begin(format!("display {}", ser(t)));
        match guarded(|| format!("{}", t)) {
            Ok(s) => {
                let r = parse_result(guarded(|| parse(&s, Classic)));
                out.line(format!("display\t{}\t{}\t{}\t{}", glyph, ser(t), chars_field(&s), r));
            }
            Err(p) => out.line(format!("display\t{}\t{}\tpanic\t{}", glyph, ser(t), p.replace(['\t', '\n'], " "))),
        }
    }
    // huge indices (machine integers): the parse of the printed string does not depend on how far
    // away the free variables are, only on their order of first appearance
    for (k, t) in terms.iter().enumerate() {
        if k % 3 != 0 || has_ud(t) {
            continue;
        }
        for &bb in BS.iter() {
            let big = shift_free(t, bb, 0);
            begin(format!("display-shift {}", ser(t)));
            let r = match guarded(|| format!("{}", big)) {
                Ok(s) => parse_result(guarded(|| parse(&s, Classic))),
                Err(p) => format!("panic {}", p.replace(['\t', '\n'], " ")),
            };
            out.line(format!("display-shift\t{}\t{}\t{}", bb, ser(t), r));
        }
    }
    // names that collide with words, and names at the far end of usize (13 and 14 letters)
    {
        let idx = |name: &str| -> usize { name.bytes().fold(0usize, |acc, c| acc * 26 + (c - b'a' + 1) as usize) };
        let shapes = [app(Var(1), Var(2)), abs(app(app(Var(2), Var(1)), abs(app(Var(3), Var(4))))), app(app(Var(1), abs(Var(1))), Var(1))];
        let maps: Vec<(&str, Vec<usize>)> = vec![
            ("lambda", vec![idx("lambda"), idx("a")]), ("aalambda", vec![idx("aalambda"), idx("e")]), ("fn", vec![idx("fn"), idx("lambda")]),
            ("undefined", vec![idx("undefined"), idx("x")]), ("let-in", vec![idx("let"), idx("in")]),
            ("2^61", vec![1usize << 61, (1 << 61) + 1]), ("2^62", vec![1usize << 62, (1 << 62) + 7]), ("2^63", vec![1usize << 63, (1 << 63) - 1]),
            ("13-14 letters", vec![2580398988131886038, 2580398988131886039]), ("max", vec![usize::MAX - 8, usize::MAX - 9]),
        ];
        fn remap(t: &Term, m: &[usize], depth: usize) -> Term {
            match t {
                Var(i) if *i > depth => Var(m[(*i - depth - 1) % m.len()] + depth),
                Var(i) => Var(*i),
                Abs(b) => abs(remap(b, m, depth + 1)),
                App(p) => app(remap(&p.0, m, depth), remap(&p.1, m, depth)),
            }
        }
        for (label, m) in &maps {
            for t in &shapes {
                let big = remap(t, m, 0);
                begin(format!("display-names {} {}", label, ser(t)));
                let r = match guarded(|| format!("{}", big)) {
                    Ok(s) => parse_result(guarded(|| parse(&s, Classic))),
                    Err(p) => format!("panic {}", p.replace(['\t', '\n'], " ")),
                };
                out.line(format!("display-shift\t{}\t{}\t{}", label, ser(t), r));
            }
        }
    }
    // Debug: indices 1..=15 for the round trip (others are printed too, format only)
    let mut dterms = universe(tier, 5, 6, 3);
    for n in [255usize, 256, 257, 300, 1030] {
        let mut t = app(Var(1), app(Var(15), Var(10)));
        for _ in 0..n {
            t = abs(t);
        }
        dterms.push(t.clone());
        dterms.push(app(Var(3), app(t, Var(2))));
    }
    dterms.push(1030usize.into_church());
    {
        // F(λE(λF(...)))
        let mut t = Var(1);
        for k in 0..1200 {
            t = app(Var(if k % 2 == 0 { 15 } else { 14 }), abs(t));
        }
        dterms.push(t);
    }
    for _ in 0..(if thorough { 30000 } else { 4000 }) {
        // random terms using all 15 digits, nested operand applications, abstractions in operator position
        let b = 2 + rng.below(35) as usize;
        let dd = rng.below(6) as usize;
        let t = random_term(rng, b, dd, 9, false);
        dterms.push(t);
    }
    for k in 0..16usize {
        dterms.push(app(abs(Var(k)), app(Var(15 - k.min(15)), app(abs(abs(Var(k))), Var(k + 1)))));
    }
    dterms.push(Var(16));
    dterms.push(Var(255));
    dterms.push(app(Var(4096), Var(10)));
    for t in &dterms {
        begin(format!("debug {}", ser(t)));
        match guarded(|| format!("{:?}", t)) {
            Ok(s) => {
                let r = parse_result(guarded(|| parse(&s, DeBruijn)));
                out.line(format!("debug\t{}\t{}\t{}\t{}", glyph, ser(t), chars_field(&s), r));
            }
            Err(p) => out.line(format!("debug\t{}\t{}\tpanic\t{}", glyph, ser(t), p.replace(['\t', '\n'], " "))),
        }
    }
}

fn main() {
    let args: Vec<String> = std::env::args().collect();
    let suite = args.get(1).cloned().unwrap_or_default();
    let tier = args.get(2).cloned().unwrap_or("quick".into());
    let seed: u64 = args.get(3).and_then(|s| s.parse().ok()).unwrap_or(1);
    // watchdog: a single case that makes no progress for 30 s is reported as a hang
    std::thread::spawn(|| {
        let mut last = PROGRESS.load(Ordering::SeqCst);
        let mut idle = 0;
        loop {
            std::thread::sleep(std::time::Duration::from_secs(1));
            let now = PROGRESS.load(Ordering::SeqCst);
            if now == last {
                idle += 1;
            } else {
                idle = 0;
                last = now;
            }
            if idle >= 30 {
                let d = CURRENT.lock().map(|s| s.clone()).unwrap_or_default();
                println!("HANG\t{}", d);
                std::io::stdout().flush().ok();
                std::process::exit(3);
            }
        }
    });
    std::panic::set_hook(Box::new(|_| {}));
    let child = std::thread::Builder::new()
        .stack_size(3 << 30)
        .spawn(move || {
            let mut out = Out { w: std::io::BufWriter::new(std::io::stdout()), n: 0 };
            let mut rng = Rng::new(seed);
            match suite.as_str() {
                "apply" => suite_apply(&mut out, &tier, &mut rng),
                "reduce" => suite_reduce(&mut out, &tier, &mut rng),
                "history" => suite_history(&mut out, &tier, &mut rng),
                "normalise" => suite_normalise(&mut out, &tier, &mut rng),
                "termops" => suite_termops(&mut out, &tier, &mut rng),
                "deep" => suite_deep(&mut out),
                "parse" => suite_parse(&mut out, &tier, &mut rng),
                "print" => suite_print(&mut out, &tier, &mut rng),
                "meta-reduce" => suite_meta_reduce(&mut out, &tier, &mut rng),
                "meta-apply" => suite_meta_apply(&mut out, &tier, &mut rng),
                _ => {
                    eprintln!("unknown suite {}", suite);
                    std::process::exit(2);
                }
            }
            out.w.flush().unwrap();
            eprintln!("lines {}", out.n);
        })
        .unwrap();
    child.join().unwrap();
}
