(** Everything the extraction needs (build target of the check driver). *)
From LC Require Export Spec.Positions Spec.Predicates Model.Reduction Model.TermOps.
