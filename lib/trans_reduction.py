#!/usr/bin/env python3
"""Translator: /repo/src/reduction.rs  ->  coq/theories/Gen/ReductionSrc.v

The Gallina model of the reducer is REGENERATED from the Rust source on every run.  The translator
understands exactly the imperative idiom the file is written in (and fails, naming the construct, on
anything else - a failed translation is reported by `check` as a broken tie):

  * structural recursions over `match self { Var(i) => .., Abs(b) => b.f(..), App(boxed) => {l.f(..); r.f(..)} }`
    (`update_free_variables`, `_apply`): the Var arm is executed symbolically (assignments to `*i` / `*self`,
    `clone_into`, calls of translated functions, `if`, `match (*i).cmp(&e)`);
  * `apply`, `eval`, `is_reducible`: statement-by-statement, boolean/arithmetic expressions translated;
  * the seven traversals `beta_*`: guard, `if let App(_)` / `match *self` skeleton, and a sequence of
    `self.lhs_mut().unwrap().f(limit, count)`, `self.rhs_mut()..`, `if self.is_reducible(..) { self.eval(count); self.f(..) } else {..}`;
    `&mut self` becomes an input and an output, `&mut count` is threaded, recursion gets explicit fuel;
  * `reduce`: the dispatch table and the initial count.

Usage: trans_reduction.py <reduction.rs> <out.v>      (exit 0 and the file is written, or exit 1 + message)
"""
import re
import sys


class TransError(Exception):
    pass


# ------------------------------------------------------------------------------------------- tokens
TOKEN_RE = re.compile(r"""
    (?P<ws>\s+)
  | (?P<num>\d+)
  | (?P<id>[A-Za-z_][A-Za-z0-9_]*)
  | (?P<op>::|=>|==|!=|<=|>=|&&|\|\||\+=|-=|->|[{}()\[\];,.&*=<>!+\-|?:#'])
""", re.X)


def tokenize(src):
    src = re.sub(r"/\*.*?\*/", " ", src, flags=re.S)
    src = re.sub(r"//[^\n]*", " ", src)
    src = re.sub(r'"(?:[^"\\]|\\.)*"', '"s"', src)
    toks, pos = [], 0
    while pos < len(src):
        m = TOKEN_RE.match(src, pos)
        if not m:
            if src[pos] == '"':
                # string literal placeholder
                end = src.index('"', pos + 1)
                toks.append('"str"')
                pos = end + 1
                continue
            raise TransError("cannot tokenize at: %r" % src[pos:pos + 30])
        pos = m.end()
        if m.lastgroup != "ws":
            toks.append(m.group(0))
    return toks


class P:
    """token cursor"""

    def __init__(self, toks, what=""):
        self.t, self.i, self.what = toks, 0, what

    def peek(self, k=0):
        return self.t[self.i + k] if self.i + k < len(self.t) else None

    def eof(self):
        return self.i >= len(self.t)

    def next(self):
        if self.eof():
            raise TransError("%s: unexpected end of tokens" % self.what)
        x = self.t[self.i]
        self.i += 1
        return x

    def expect(self, *xs):
        for x in xs:
            y = self.next()
            if y != x:
                raise TransError("%s: expected `%s`, found `%s` (near: %s)" % (
                    self.what, x, y, " ".join(self.t[max(0, self.i - 8):self.i + 4])))

    def accept(self, *xs):
        if self.t[self.i:self.i + len(xs)] == list(xs):
            self.i += len(xs)
            return True
        return False

    def ident(self):
        x = self.next()
        if not re.match(r"[A-Za-z_]\w*$", x):
            raise TransError("%s: expected an identifier, found `%s`" % (self.what, x))
        return x

    def block(self):
        """tokens of a `{ ... }` block (without the braces)"""
        self.expect("{")
        depth, start = 1, self.i
        while depth:
            x = self.next()
            if x == "{":
                depth += 1
            elif x == "}":
                depth -= 1
        return self.t[start:self.i - 1]

    def parens(self):
        self.expect("(")
        depth, start = 1, self.i
        while depth:
            x = self.next()
            if x == "(":
                depth += 1
            elif x == ")":
                depth -= 1
        return self.t[start:self.i - 1]

    def rest(self):
        return self.t[self.i:]


def split_top(toks, sep):
    """split a token list at top-level occurrences of sep"""
    out, cur, depth = [], [], 0
    for x in toks:
        if x in "({[":
            depth += 1
        elif x in ")}]":
            depth -= 1
        if x == sep and depth == 0:
            out.append(cur)
            cur = []
        else:
            cur.append(x)
    out.append(cur)
    return out


# ------------------------------------------------------------------------------------------- functions
def functions_of_impl(toks):
    """{name: (params tokens, body tokens)} of `impl Term { .. }`"""
    p = P(toks, "impl Term")
    while not p.eof():
        if p.accept("impl", "Term", "{"):
            p.i -= 1
            body = p.block()
            break
        p.next()
    else:
        raise TransError("no `impl Term { .. }` block found")
    q = P(body, "impl Term body")
    fns = {}
    while not q.eof():
        x = q.next()
        if x == "fn":
            name = q.ident()
            params = q.parens()
            while q.peek() != "{":
                q.next()
            fns[name] = (params, q.block())
    return fns


def param_names(params):
    names = []
    for part in split_top(params, ","):
        part = [x for x in part if x not in ("&", "mut")]
        if not part:
            continue
        if part[0] == "self":
            continue
        names.append(part[0])
    return names


# ------------------------------------------------------------------------------------------- expressions
SINK = None   # when a list: every usize addition / subtraction translated by arith() appends its no-overflow condition


def arith(toks, env):
    """arithmetic over usize: atoms (`*`? ident | number) joined by + and - (left assoc).  env renames identifiers."""
    p = P(list(toks), "arithmetic expression")

    def atom():
        x = p.next()
        if x == "*":
            x = p.next()
        if x == "(":
            p.i -= 1
            inner = p.parens()
            if inner and inner[0] == "*":
                inner = inner[1:]
            return arith(inner, env)
        if x.isdigit():
            return x
        if re.match(r"[A-Za-z_]\w*$", x):
            return env.get(x, x)
        raise TransError("arithmetic: unexpected token `%s` in `%s`" % (x, " ".join(toks)))
    e = atom()
    while not p.eof():
        op = p.next()
        r = atom()
        if op == "+":
            if SINK is not None:
                SINK.append("(%s + %s <? W)" % (e, r))
            e = "S %s" % paren(e) if r == "1" else "%s + %s" % (e, r)
        elif op == "-":
            if SINK is not None:
                SINK.append("(%s <=? %s)" % (r, e))
            e = "%s - %s" % (e, r)
        else:
            raise TransError("arithmetic: unexpected operator `%s` in `%s`" % (op, " ".join(toks)))
    return e


def paren(e):
    return e if re.match(r"^\w+$", e) else "(" + e + ")"


def boolean(toks, env):
    """boolean expression over usize comparisons: ||, &&, !, parentheses, == != < <= > >="""
    ors = split_top(toks, "||")
    if len(ors) > 1:
        return " || ".join(bparen(boolean(o, env)) for o in ors)
    ands = split_top(toks, "&&")
    if len(ands) > 1:
        return " && ".join(bparen(boolean(a, env)) for a in ands)
    toks = list(toks)
    if toks and toks[0] == "(" and matching(toks, 0) == len(toks) - 1:
        return boolean(toks[1:-1], env)
    if toks and toks[0] == "!":
        return "negb %s" % bparen(boolean(toks[1:], env), force=True)
    for op in ("==", "!=", "<=", ">=", "<", ">"):
        parts = split_top(toks, op)
        if len(parts) == 2:
            a, b = arith(parts[0], env), arith(parts[1], env)
            return {"==": "%s =? %s" % (a, b), "!=": "negb (%s =? %s)" % (a, b), "<": "%s <? %s" % (a, b),
                    "<=": "%s <=? %s" % (a, b), ">": "%s <? %s" % (b, a), ">=": "%s <=? %s" % (b, a)}[op]
    raise TransError("boolean: cannot translate `%s`" % " ".join(toks))


def bparen(e, force=False):
    if e.startswith("negb ") and not force:
        return e
    return "(" + e + ")"


def matching(toks, i):
    depth = 0
    for j in range(i, len(toks)):
        if toks[j] in "({[":
            depth += 1
        elif toks[j] in ")}]":
            depth -= 1
            if depth == 0:
                return j
    return -1


# ------------------------------------------------------------------------------------------- structural recursions
GNAME = {"update_free_variables": "update_free_variables", "_apply": "apply_rec"}


def trans_structural(name, params, body, known):
    """fn f(&mut self, p..) { match self { Var(i) => V, Abs(b) => b.f(args), App(boxed) => { let (l, r) = **boxed; l.f(a); r.f(a) } } }"""
    what = "fn " + name
    ps = param_names(params)
    p = P(body, what)
    p.expect("match")
    p.accept("*")
    p.expect("self")
    arms_toks = p.block()
    if not p.eof():
        raise TransError("%s: statements after the match on self" % what)
    arms = parse_arms(arms_toks, what)
    out = {}
    for pat, rhs in arms:
        ctor = pat[0]
        inner = [x for x in pat[2:-1] if x not in ("ref", "mut")]
        if ctor == "Var":
            if len(inner) != 1:
                raise TransError("%s: Var pattern" % what)
            out["Var"] = sym_exec(rhs, inner[0], ps, known, what)
        elif ctor == "Abs":
            b = inner[0]
            q = P(strip_braces(rhs), what + " Abs arm")
            q.expect(b, ".", name)
            args = [arith(a, {}) for a in split_top(q.parens(), ",")]
            q.accept(";")
            if not q.eof():
                raise TransError("%s: extra statements in the Abs arm" % what)
            out["Abs"] = "Abs (%s %s b)" % (GNAME[name], " ".join(paren(a) for a in args))
        elif ctor == "App":
            q = P(strip_braces(rhs), what + " App arm")
            q.expect("let", "(")
            names = []
            while q.peek() != ")":
                x = q.next()
                if x not in ("ref", "mut", ","):
                    names.append(x)
            q.expect(")", "=", "*", "*", inner[0], ";")
            if len(names) != 2:
                raise TransError("%s: App arm destructuring" % what)
            calls = []
            for nm in names:
                q.expect(nm, ".", name)
                calls.append([arith(a, {}) for a in split_top(q.parens(), ",")])
                q.accept(";")
            if not q.eof():
                raise TransError("%s: extra statements in the App arm" % what)
            out["App"] = "App (%s %s l) (%s %s r)" % (GNAME[name], " ".join(paren(a) for a in calls[0]),
                                                      GNAME[name], " ".join(paren(a) for a in calls[1]))
        else:
            raise TransError("%s: unexpected arm %s" % (what, " ".join(pat)))
    for c in ("Var", "Abs", "App"):
        if c not in out:
            raise TransError("%s: no arm for %s" % (what, c))
    types = {"rhs": "term"}
    sig = " ".join("(%s : %s)" % (x, types.get(x, "nat")) for x in ps)
    return ("Fixpoint %s %s (t : term) : term :=\n  match t with\n  | Var i => %s\n  | Abs b => %s\n  | App l r => %s\n  end.\n"
            % (GNAME[name], sig, out["Var"], out["Abs"], out["App"]))


def conj(cs):
    cs = [c for c in cs if c != "true"]
    return " && ".join(cs) if cs else "true"


def with_sink(f):
    """run f() collecting the no-overflow conditions of the arithmetic it translates"""
    global SINK
    old, SINK = SINK, []
    try:
        r = f()
        return r, SINK
    finally:
        SINK = old


def safe_structural(name, params, body, known):
    """the companion predicate `<f>_safe W args t : bool`: true iff no usize addition performed by f on these inputs
    reaches W and no subtraction goes below zero (same recursion as f; generated from the same source text)"""
    what = "fn " + name + " (safety)"
    ps = param_names(params)
    p = P(body, what)
    p.expect("match")
    p.accept("*")
    p.expect("self")
    arms = parse_arms(p.block(), what)
    out = {}
    g = GNAME[name] + "_safe"
    for pat, rhs in arms:
        ctor = pat[0]
        inner = [x for x in pat[2:-1] if x not in ("ref", "mut")]
        if ctor == "Var":
            out["Var"] = safe_exec(rhs, inner[0], ps, known, what)
        elif ctor == "Abs":
            q = P(strip_braces(rhs), what)
            q.expect(inner[0], ".", name)
            args, cs = with_sink(lambda: [arith(a, {}) for a in split_top(q.parens(), ",")])
            out["Abs"] = conj(cs + ["%s W %s b" % (g, " ".join(paren(a) for a in args))])
        elif ctor == "App":
            q = P(strip_braces(rhs), what)
            q.expect("let", "(")
            names = []
            while q.peek() != ")":
                x = q.next()
                if x not in ("ref", "mut", ","):
                    names.append(x)
            q.expect(")", "=", "*", "*", inner[0], ";")
            parts = []
            for nm, sub in zip(names, ("l", "r")):
                q.expect(nm, ".", name)
                args, cs = with_sink(lambda: [arith(a, {}) for a in split_top(q.parens(), ",")])
                q.accept(";")
                parts += cs + ["%s W %s %s" % (g, " ".join(paren(a) for a in args), sub)]
            out["App"] = conj(parts)
    types = {"rhs": "term"}
    sig = " ".join("(%s : %s)" % (x, types.get(x, "nat")) for x in ps)
    return ("Fixpoint %s (W : nat) %s (t : term) : bool :=\n  match t with\n  | Var i => %s\n  | Abs b => %s\n  | App l r => %s\n  end.\n"
            % (g, sig, out["Var"], out["Abs"], out["App"]))


def safe_exec(toks, ivar, params, known, what, cur="(Var i)"):
    """the conjunction of the no-overflow conditions of the statements executed in a Var arm (branch-sensitive);
    `cur` is the Gallina expression of the value `self` currently holds"""
    env = {ivar: "i"}
    p = P(strip_braces(toks), what + " Var arm")
    cs = []
    while not p.eof():
        if p.peek() == "*" and p.peek(1) == ivar and p.peek(2) in ("+=", "-="):
            p.next(); p.next()
            op = p.next()
            e = []
            while not p.eof() and p.peek() != ";":
                e.append(p.next())
            p.accept(";")
            v, c = with_sink(lambda: arith(e, env))
            cs += c + (["(i + %s <? W)" % v] if op == "+=" else ["(%s <=? i)" % v])
        elif p.accept("*", "self", "=", "Var"):
            inner = p.parens()
            v, c = with_sink(lambda: arith(inner, env))
            p.accept(";")
            cs += c
            cur = "(Var (%s))" % v
        elif p.peek() in params and p.peek(1) == "." and p.peek(2) == "clone_into":
            cur = p.next()
            p.expect(".", "clone_into")
            p.parens()
            p.accept(";")
        elif p.accept("self", "."):
            f = p.ident()
            inner = p.parens()
            args, c = with_sink(lambda: [arith(a, env) for a in split_top(inner, ",")])
            p.accept(";")
            cs += c + ["%s_safe W %s %s" % (GNAME.get(f, f), " ".join(paren(a) for a in args), cur)]
            cur = "(%s %s %s)" % (GNAME.get(f, f), " ".join(paren(a) for a in args), cur)
        elif p.accept("if"):
            cond = []
            while p.peek() != "{":
                cond.append(p.next())
            then = p.block()
            els = p.block() if p.accept("else") else []
            cs.append("(if %s then %s else %s)" % (boolean(cond, env), safe_exec(then, ivar, params, known, what, cur),
                                                  safe_exec(els, ivar, params, known, what, cur)))
        elif p.accept("match"):
            scrut = []
            while p.peek() != "{":
                scrut.append(p.next())
            sq = P(scrut, what)
            lhs = sq.parens() if sq.peek() == "(" else [sq.next()]
            sq.expect(".", "cmp")
            rhs = [x for x in sq.parens() if x != "&"]
            a, b = arith(lhs, env), arith(rhs, env)
            res = {}
            for pat, body in parse_arms(p.block(), what):
                key = {"Equal": "Eq", "Greater": "Gt", "Less": "Lt"}.get(pat[-1], "_")
                val = safe_exec(body, ivar, params, known, what, cur)
                if key == "_":
                    for k in ("Eq", "Gt", "Lt"):
                        res.setdefault(k, val)
                else:
                    res[key] = val
            cs.append("(match %s ?= %s with Eq => %s | Gt => %s | Lt => %s end)" % (a, b, res["Eq"], res["Gt"], res["Lt"]))
        elif p.accept(";"):
            pass
        else:
            raise TransError("%s: cannot translate statement starting `%s`" % (what, " ".join(p.rest()[:8])))
    return conj(cs)


def strip_braces(toks):
    toks = list(toks)
    if toks and toks[0] == "{" and matching(toks, 0) == len(toks) - 1:
        return toks[1:-1]
    if toks and toks[-1] == ",":
        toks = toks[:-1]
    return toks


def parse_arms(toks, what):
    """[(pattern tokens, rhs tokens)] of a match body"""
    p = P(toks, what + " match arms")
    arms = []
    while not p.eof():
        pat = []
        while p.peek() != "=>":
            pat.append(p.next())
        p.expect("=>")
        if p.peek() == "{":
            rhs = ["{"] + p.block() + ["}"]
            p.accept(",")
        else:
            rhs, depth = [], 0
            while not p.eof():
                x = p.peek()
                if x in "({[":
                    depth += 1
                elif x in ")}]":
                    depth -= 1
                if x == "," and depth == 0:
                    p.next()
                    break
                rhs.append(p.next())
        arms.append((pat, rhs))
    return arms


def sym_exec(toks, ivar, params, known, what, cur=None):
    """execute a block symbolically on `self`, initially `Var i`; returns the Gallina expression of the final self"""
    cur = cur or "Var i"
    env = {ivar: "i"}
    p = P(strip_braces(toks), what + " Var arm")
    while not p.eof():
        if p.accept("*", ivar, "+="):
            e = []
            while not p.eof() and p.peek() != ";":
                e.append(p.next())
            p.accept(";")
            if cur != "Var i":
                raise TransError("%s: `*%s +=` after self was overwritten" % (what, ivar))
            cur = "Var (i + %s)" % arith(e, env)
        elif p.accept("*", ivar, "-="):
            e = []
            while not p.eof() and p.peek() != ";":
                e.append(p.next())
            p.accept(";")
            if cur != "Var i":
                raise TransError("%s: `*%s -=` after self was overwritten" % (what, ivar))
            cur = "Var (i - %s)" % arith(e, env)
        elif p.accept("*", "self", "=", "Var"):
            cur = "Var (%s)" % arith(p.parens(), env)
            p.accept(";")
        elif p.peek() in params and p.peek(1) == "." and p.peek(2) == "clone_into":
            src = p.next()
            p.expect(".", "clone_into")
            if p.parens() != ["self"]:
                raise TransError("%s: clone_into target" % what)
            p.accept(";")
            cur = src
        elif p.accept("self", "."):
            f = p.ident()
            if f not in known:
                raise TransError("%s: call of untranslated function `%s`" % (what, f))
            args = [arith(a, env) for a in split_top(p.parens(), ",")]
            p.accept(";")
            cur = "%s %s %s" % (GNAME.get(f, f), " ".join(paren(a) for a in args), paren(cur))
        elif p.accept("if"):
            cond = []
            while p.peek() != "{":
                cond.append(p.next())
            then = p.block()
            els = None
            if p.accept("else"):
                els = p.block()
            c = boolean(cond, env)
            a = sym_exec(then, ivar, params, known, what, cur)
            b = sym_exec(els, ivar, params, known, what, cur) if els is not None else cur
            cur = "if %s then %s else %s" % (c, a, b)
        elif p.accept("match"):
            scrut = []
            while p.peek() != "{":
                scrut.append(p.next())
            # (*i).cmp(&e)
            s = P(scrut, what + " cmp scrutinee")
            lhs = s.parens() if s.peek() == "(" else [s.next()]
            s.expect(".", "cmp")
            rhs = [x for x in s.parens() if x != "&"]
            a, b = arith(lhs, env), arith(rhs, env)
            arms = parse_arms(p.block(), what)
            res = {}
            for pat, body in arms:
                key = pat[-1]
                val = sym_exec(body, ivar, params, known, what, cur)
                if key == "Equal":
                    res["Eq"] = val
                elif key == "Greater":
                    res["Gt"] = val
                elif key == "Less":
                    res["Lt"] = val
                elif key == "_":
                    for k in ("Eq", "Gt", "Lt"):
                        res.setdefault(k, val)
                else:
                    raise TransError("%s: unexpected cmp arm `%s`" % (what, " ".join(pat)))
            if set(res) != {"Eq", "Gt", "Lt"}:
                raise TransError("%s: cmp match is not exhaustive" % what)
            cur = ("\n      match %s ?= %s with\n      | Eq => %s\n      | Gt => %s\n      | Lt => %s\n      end"
                   % (a, b, res["Eq"], res["Gt"], res["Lt"]))
        elif p.accept(";"):
            pass
        else:
            raise TransError("%s: cannot translate statement starting `%s`" % (what, " ".join(p.rest()[:8])))
    return cur


# ------------------------------------------------------------------------------------------- apply / eval / is_reducible
def trans_apply(params, body):
    what = "fn apply"
    (rhs,) = param_names(params)
    p = P(body, what)
    p.expect("self", ".", "unabs_ref", "(", ")", "?", ";")
    p.expect("self", ".", "_apply")
    args = split_top(p.parens(), ",")
    if len(args) != 2 or args[0] != [rhs]:
        raise TransError("%s: arguments of _apply" % what)
    depth = arith(args[1], {})
    p.expect(";", "let")
    tmp = p.ident()
    p.expect("=", "mem", "::", "replace", "(", "self", ",", "Var", "(", "0", ")", ")", ";")
    p.expect("*", "self", "=", tmp, ".", "unabs", "(", ")", ".", "unwrap", "(", ")", ";")
    p.expect("Ok", "(", "(", ")", ")")
    if not p.eof():
        raise TransError("%s: extra statements" % what)
    return ("Definition apply_m (t rhs : term) : (term_error * term) + term :=\n"
            "  match t with\n"
            "  | Abs _ =>\n"
            "      match apply_rec rhs %s t with   (* self._apply(rhs, %s) on the abstraction itself *)\n"
            "      | Abs b' => inr b'             (* ret.unabs().unwrap() *)\n"
            "      | other => inl (NotAbs, other) (* unreachable *)\n"
            "      end\n"
            "  | _ => inl (NotAbs, t)\n"
            "  end.\n" % (depth, depth))


def trans_eval(params, body):
    what = "fn eval"
    (count,) = param_names(params)
    p = P(body, what)
    p.expect("let")
    tmp = p.ident()
    p.expect("=", "mem", "::", "replace", "(", "self", ",", "Var", "(", "0", ")", ")", ";")
    p.expect("let", "(")
    p.accept("mut")
    lhs = p.ident()
    p.expect(",")
    p.accept("mut")
    rhs = p.ident()
    p.expect(")", "=", tmp, ".", "unapp", "(", ")", ".", "unwrap", "(", ")", ";")
    p.expect(lhs, ".", "apply", "(", "&", rhs, ")", ".", "unwrap", "(", ")", ";")
    p.expect("*", "self", "=", lhs, ";")
    p.expect("*", count, "+=")
    inc = p.next()
    p.expect(";")
    if not p.eof() or not inc.isdigit():
        raise TransError("%s: unexpected tail" % what)
    text = ("Definition eval_m (t : term) : term :=\n"
            "  match t with\n"
            "  | App l r => match apply_m l r with inr t' => t' | inl _ => t end\n"
            "  | _ => t\n"
            "  end.\n")
    return text, int(inc)


def trans_is_reducible(params, body):
    what = "fn is_reducible"
    ps = param_names(params)
    p = P(body, what)
    p.expect("self", ".", "lhs_ref", "(", ")", ".", "and_then", "(", "|")
    v = p.ident()
    p.expect("|", v, ".", "unabs_ref", "(", ")", ")", ".", "is_ok", "(", ")", "&&")
    cond = boolean(p.rest(), {})
    if ps != ["limit", "count"]:
        raise TransError("%s: parameters %s" % (what, ps))
    return ("Definition is_reducible (t : term) (limit count : nat) : bool :=\n"
            "  match t with\n"
            "  | App (Abs _) _ => %s\n"
            "  | _ => false\n"
            "  end.\n" % cond)


# ------------------------------------------------------------------------------------------- traversals
def parse_traversal(name, params, body):
    """-> dict(guard=bool expr, under=fn name or None, stmts=[...])"""
    what = "fn " + name
    if param_names(params) != ["limit", "count"]:
        raise TransError("%s: parameters" % what)
    p = P(body, what)
    p.expect("if")
    cond = []
    while p.peek() != "{":
        cond.append(p.next())
    ret = p.block()
    if ret not in (["return", ";"], ["return"]):
        raise TransError("%s: the guard must `return`" % what)
    guard = boolean(cond, {})
    under, app_body = None, None
    if p.accept("if", "let", "App", "(", "_", ")", "=", "*", "self"):
        app_body = p.block()
    elif p.accept("match", "*", "self") or p.accept("match", "self"):
        for pat, rhs in parse_arms(p.block(), what):
            if pat[0] == "Abs":
                b = [x for x in pat[2:-1] if x not in ("ref", "mut")][0]
                q = P(strip_braces(rhs), what + " Abs arm")
                q.expect(b, ".")
                under = q.ident()
                if q.parens() != ["limit", ",", "count"]:
                    raise TransError("%s: Abs arm arguments" % what)
                q.accept(";")
                if not q.eof():
                    raise TransError("%s: extra statements in the Abs arm" % what)
            elif pat[0] == "App":
                app_body = strip_braces(rhs)
            elif pat == ["_"] or pat[0] == "Var":
                if strip_braces(rhs) not in ([], ["(", ")"]):
                    raise TransError("%s: the Var/_ arm must do nothing" % what)
            else:
                raise TransError("%s: unexpected arm `%s`" % (what, " ".join(pat)))
    else:
        raise TransError("%s: expected `if let App(_) = *self` or `match *self`" % what)
    p.accept(";")
    if not p.eof():
        raise TransError("%s: statements after the case analysis on self" % what)
    if app_body is None:
        raise TransError("%s: no App case" % what)
    return dict(guard=guard, under=under, stmts=parse_stmts(app_body, what))


def parse_stmts(toks, what):
    p = P(toks, what + " App case")
    out = []
    while not p.eof():
        if p.accept("self", ".", "lhs_mut", "(", ")", ".", "unwrap", "(", ")", "."):
            f = p.ident()
            if p.parens() != ["limit", ",", "count"]:
                raise TransError("%s: arguments of %s" % (what, f))
            p.accept(";")
            out.append(("L", f))
        elif p.accept("self", ".", "rhs_mut", "(", ")", ".", "unwrap", "(", ")", "."):
            f = p.ident()
            if p.parens() != ["limit", ",", "count"]:
                raise TransError("%s: arguments of %s" % (what, f))
            p.accept(";")
            out.append(("R", f))
        elif p.accept("if", "self", ".", "is_reducible", "(", "limit", ",", "*", "count", ")"):
            then = P(p.block(), what + " reducible branch")
            then.expect("self", ".", "eval", "(", "count", ")", ";", "self", ".")
            f = then.ident()
            if then.parens() != ["limit", ",", "count"]:
                raise TransError("%s: arguments of the recursive call" % what)
            then.accept(";")
            if not then.eof():
                raise TransError("%s: extra statements after the recursive call" % what)
            els = []
            if p.accept("else"):
                els = parse_stmts(p.block(), what)
            p.accept(";")
            out.append(("IF", f, els))
            if not p.eof():
                raise TransError("%s: statements after the reducibility test" % what)
        else:
            raise TransError("%s: cannot translate statement starting `%s`" % (what, " ".join(p.rest()[:10])))
    return out


def emit_traversal(name, tr, inc):
    lines = []
    lines.append("Fixpoint %s (fuel limit count : nat) (t : term) : R :=" % name)
    lines.append("  match fuel with 0 => None | S f =>")
    lines.append("    if limit_hit limit count then ret t count else")
    lines.append("    match t with")
    if tr["under"]:
        lines.append("    | Abs b => bind (%s f limit count b) (fun b1 c1 => ret (Abs b1) c1)" % tr["under"])
    lines.append("    | App l r =>")
    st = {"l": "l", "r": "r", "c": "count", "n": 0, "close": 0}

    def emit(stmts, ind, phase):
        for s in stmts:
            if s[0] in ("L", "R"):
                st["n"] += 1
                side = "l" if s[0] == "L" else "r"
                new, c = "%s%d" % (side, phase), "c%d" % st["n"]
                lines.append("%sbind (%s f limit %s %s) (fun %s %s =>" % (ind, s[1], st["c"], st[side], new, c))
                st[side], st["c"] = new, c
                st["close"] += 1
            else:
                _, f, els = s
                nc = "(S %s)" % st["c"] if inc == 1 else "(%s + %d)" % (st["c"], inc)
                lines.append("%slet t1 := App %s %s in" % (ind, st["l"], st["r"]))
                lines.append("%sif is_reducible t1 limit %s then %s f limit %s (eval_m t1)" % (ind, st["c"], f, nc))
                if els:
                    lines.append("%selse" % ind)
                    emit(els, ind + "  ", 2)
                    lines.append("%s  ret (App %s %s) %s" % (ind, st["l"], st["r"], st["c"]))
                else:
                    lines.append("%selse ret t1 %s" % (ind, st["c"]))
                return True
        return False
    had_if = emit(tr["stmts"], "        ", 1)
    if not had_if:
        lines.append("        ret (App %s %s) %s" % (st["l"], st["r"], st["c"]))
    lines[-1] += ")" * st["close"]
    lines.append("    | _ => ret t count")
    lines.append("    end")
    lines.append("  end.")
    return "\n".join(lines) + "\n"


def trans_reduce(params, body, names):
    what = "fn reduce"
    p = P(body, what)
    p.expect("let", "mut")
    cnt = p.ident()
    p.expect("=")
    init = p.next()
    p.expect(";", "match", "order")
    arms = parse_arms(p.block(), what)
    p.accept(";")
    if p.rest() != [cnt]:
        raise TransError("%s: must return the count" % what)
    lines = ["Definition reduce_m (fuel : nat) (o : order) (limit : nat) (t : term) : R :=", "  match o with"]
    seen = []
    for pat, rhs in arms:
        q = P(strip_braces(rhs), what)
        q.expect("self", ".")
        f = q.ident()
        if q.parens() != ["limit", ",", "&", "mut", cnt] or f not in names:
            raise TransError("%s: arm %s" % (what, " ".join(pat)))
        lines.append("  | %s => %s fuel limit %s t" % (pat[-1], f, init))
        seen.append(pat[-1])
    if sorted(seen) != sorted(["CBN", "NOR", "CBV", "APP", "HSP", "HNO", "HAP"]):
        raise TransError("%s: the dispatch does not cover the seven orders exactly once: %s" % (what, seen))
    lines += ["  end."]
    return "\n".join(lines) + "\n"


def order_by_calls(trs):
    """definitions must precede their uses (the traversals only call themselves and earlier ones)"""
    deps = {}
    for n, tr in trs.items():
        d = set()

        def walk(stmts):
            for s in stmts:
                if s[0] in ("L", "R"):
                    d.add(s[1])
                else:
                    d.add(s[1])
                    walk(s[2])
        walk(tr["stmts"])
        if tr["under"]:
            d.add(tr["under"])
        d.discard(n)
        deps[n] = d
    out = []
    while deps:
        ready = sorted(n for n, d in deps.items() if d <= set(out))
        if not ready:
            raise TransError("the traversals are mutually recursive (%s): not expressible as successive Fixpoints"
                             % ", ".join(sorted(deps)))
        out.append(ready[0])
        del deps[ready[0]]
    return out


def translate(src):
    fns = functions_of_impl(tokenize(src))
    need = ["apply", "_apply", "update_free_variables", "eval", "is_reducible", "reduce"]
    for n in need:
        if n not in fns:
            raise TransError("function `%s` not found in impl Term" % n)
    betas = sorted(n for n in fns if n.startswith("beta_"))
    out = []
    out.append("(** GENERATED by lib/trans_reduction.py from /repo/src/reduction.rs - do not edit.\n"
               "    Gallina translation of `impl Term` in reduction.rs: [&mut self] becomes an input and an output term,\n"
               "    [&mut count] is threaded, possibly non-terminating recursion gets explicit fuel ([None] = out of fuel). *)\n"
               "From LC Require Export Model.ReductionPrelude.\n")
    out.append("(** update_free_variables(added_depth, own_depth) *)")
    out.append(trans_structural("update_free_variables", *fns["update_free_variables"], known=set()))
    out.append("(** _apply(rhs, depth) *)")
    out.append(trans_structural("_apply", *fns["_apply"], known={"update_free_variables"}))
    out.append("(** apply: [Err(NotAbs)] leaves the receiver untouched (returned next to the error) *)")
    out.append(trans_apply(*fns["apply"]))
    out.append("(** machine arithmetic: [f_safe W .. t] is true iff, on these inputs, no usize addition performed by f reaches W\n"
               "    and no subtraction goes below zero - generated from the same source text as f, with the same recursion *)")
    out.append(safe_structural("update_free_variables", *fns["update_free_variables"], known=set()))
    out.append(safe_structural("_apply", *fns["_apply"], known={"update_free_variables"}))
    out.append("Definition apply_safe (W : nat) (t rhs : term) : bool :=\n  match t with Abs _ => apply_rec_safe W rhs %s t | _ => true end.\n"
               % re.search(r"apply_rec rhs (\S+) t with", out[-4] if False else trans_apply(*fns["apply"])).group(1))
    ev, inc = trans_eval(*fns["eval"])
    out.append("(** eval: only called on [App (Abs _) _]; the counter is incremented by %d at the call sites *)" % inc)
    out.append(ev)
    trs = {n: parse_traversal(n, *fns[n]) for n in betas}
    guards = {tr["guard"] for tr in trs.values()}
    if len(guards) != 1:
        raise TransError("the traversals do not share one limit guard: %s" % sorted(guards))
    out.append("Definition limit_hit (limit count : nat) : bool := %s.\n" % guards.pop())
    out.append(trans_is_reducible(*fns["is_reducible"]))
    for n in order_by_calls(trs):
        out.append(emit_traversal(n, trs[n], inc))
    out.append("(** Term::reduce *)")
    out.append(trans_reduce(*fns["reduce"], names=set(betas)))
    return "\n".join(out)


def main():
    src, dst = sys.argv[1], sys.argv[2]
    try:
        text = translate(open(src).read())
    except TransError as e:
        print("TRANSLATOR: " + str(e))
        sys.exit(1)
    old = open(dst).read() if __import__("os").path.exists(dst) else None
    if old != text:
        open(dst, "w").write(text)
        print("changed")
    else:
        print("unchanged")


if __name__ == "__main__":
    main()
