(** C12 — every numeral constructor yields the canonical, decodable encoding of its number *)
From LC Require Import Spec.Encodings Model.Convert Proofs.Convert Gen.Terms Proofs.BinaryArith Gen.ConvertSrc Proofs.ConvertSrcTie.

(** the loops of the model compute the documented closed forms, for every n *)
Theorem C12_shapes : forall n,
  into_church n = church n /\ into_scott n = scott n /\ into_parigot n = parigot n /\
  into_stumpfu n = stumpfu n /\ into_binary n = binary n.
Proof.
  intros n. repeat split.
  - apply into_church_spec. - apply into_scott_spec. - apply into_parigot_spec.
  - apply into_stumpfu_spec. - apply into_binary_spec.
Qed.

(** The unary constructors REGENERATED from src/data/num/convert.rs on every run (Gen/ConvertSrc.v,
    lib/trans_convert.py) produce the closed forms (which C12_closed / _normal / _decode are about). *)
Theorem C12_src_shapes : forall n,
  CSrc.into_church n = church n /\ CSrc.into_scott n = scott n /\ CSrc.into_parigot n = parigot n /\
  CSrc.into_stumpfu n = stumpfu n.
Proof. exact src_shapes. Qed.

Theorem C12_closed : forall n,
  closed (church n) = true /\ closed (scott n) = true /\ closed (parigot n) = true /\
  closed (stumpfu n) = true /\ closed (binary n) = true.
Proof.
  intros n. repeat split.
  - apply church_closed. - apply scott_closed. - apply parigot_closed. - apply stumpfu_closed. - apply binary_closed.
Qed.

Theorem C12_normal : forall n,
  nfb (church n) = true /\ nfb (scott n) = true /\ nfb (parigot n) = true /\
  nfb (stumpfu n) = true /\ nfb (binary n) = true.
Proof.
  intros n. repeat split.
  - apply church_nf. - apply scott_nf. - apply parigot_nf. - apply stumpfu_nf. - apply binary_nf.
Qed.

(** decodable, hence distinct numbers get distinct terms *)
Theorem C12_decode : forall n,
  dec_church (church n) = Some n /\ dec_scott (S n) (scott n) = Some n /\ dec_parigot (S n) (parigot n) = Some n /\
  dec_stumpfu (S n) (stumpfu n) = Some n /\ dec_binary (binary n) = Some n.
Proof.
  intros n. repeat split.
  - apply dec_church_ok. - apply dec_scott_ok. - apply dec_parigot_ok. - apply dec_stumpfu_ok. - apply dec_binary_ok.
Qed.
Theorem C12_injective_church : forall m n, church m = church n -> m = n.
Proof. intros m n H. pose proof (dec_church_ok m) as A. rewrite H, dec_church_ok in A. congruence. Qed.
Theorem C12_injective_binary : forall m n, binary m = binary n -> m = n.
Proof. intros m n H. pose proof (dec_binary_ok m) as A. rewrite H, dec_binary_ok in A. congruence. Qed.

(** zero() and one() of each module (GENERATED constants) are the encodings of 0 and 1 *)
Theorem C12_zero_one :
  lc_num_church_zero = church 0 /\ lc_num_church_one = church 1 /\
  lc_num_scott_zero = scott 0 /\ lc_num_scott_one = scott 1 /\
  lc_num_parigot_zero = parigot 0 /\ lc_num_parigot_one = parigot 1 /\
  lc_num_stumpfu_zero = stumpfu 0 /\ lc_num_stumpfu_one = stumpfu 1 /\
  lc_num_binary_zero = binary 0 /\ lc_num_binary_one = binary 1.
Proof. repeat split; reflexivity. Qed.

(** containers *)
Theorem C12_containers : forall a b x xs,
  into_pair a b = pair_t a b /\
  into_option None = none_t /\ into_option (Some x) = some_t x /\
  into_result (inl x) = ok_t x /\ into_result (inr x) = err_t x /\
  into_pair_list xs = pair_list xs /\ into_church_list xs = church_list xs.
Proof.
  intros. repeat split; try reflexivity.
  - apply into_pair_list_spec. - apply into_church_list_spec.
Qed.

(** a signed value is the pair (n, zero) or (zero, n) built with the zero of the SAME encoding *)
Theorem C12_signed : forall positive m e,
  into_signed positive m e =
  match enc_of e m, enc_of e 0 with
  | Some num, Some zero => Some (if positive then pair_t num zero else pair_t zero num)
  | _, _ => None
  end.
Proof. exact into_signed_spec. Qed.

Example C12_example : into_signed false 2 Scott = Some (pair_t (scott 0) (scott 2)).
Proof. reflexivity. Qed.

(** the [N]-indexed encoder/decoder that the test driver uses for numerals a unary [nat] cannot reach in practice
    (2^32 .. usize::MAX) is the same encoding, and decodes back *)
Theorem C12_binary_large : forall n : N, binary_N n = binary (N.to_nat n) /\ dec_binary_N (binary_N n) = Some n.
Proof. intros n. split; [apply binary_N_spec|apply dec_binary_N_ok]. Qed.

Print Assumptions C12_shapes.
Print Assumptions C12_src_shapes.
Print Assumptions C12_closed.
Print Assumptions C12_normal.
Print Assumptions C12_decode.
Print Assumptions C12_injective_church.
Print Assumptions C12_injective_binary.
Print Assumptions C12_zero_one.
Print Assumptions C12_containers.
Print Assumptions C12_signed.
Print Assumptions C12_binary_large.
