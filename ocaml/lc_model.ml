
(** val negb : bool -> bool **)

let negb = function
| true -> false
| false -> true

type nat =
| O
| S of nat

(** val option_map : ('a1 -> 'a2) -> 'a1 option -> 'a2 option **)

let option_map f = function
| Some a -> Some (f a)
| None -> None

type ('a, 'b) sum =
| Inl of 'a
| Inr of 'b

(** val fst : ('a1 * 'a2) -> 'a1 **)

let fst = function
| (x, _) -> x

(** val app : 'a1 list -> 'a1 list -> 'a1 list **)

let rec app l m =
  match l with
  | [] -> m
  | a :: l1 -> a :: (app l1 m)

type comparison =
| Eq
| Lt
| Gt

(** val add : nat -> nat -> nat **)

let rec add n m =
  match n with
  | O -> m
  | S p -> S (add p m)

(** val sub : nat -> nat -> nat **)

let rec sub n m =
  match n with
  | O -> n
  | S k -> (match m with
            | O -> n
            | S l -> sub k l)

(** val max : nat -> nat -> nat **)

let rec max n m =
  match n with
  | O -> m
  | S n' -> (match m with
             | O -> n
             | S m' -> S (max n' m'))

module Nat =
 struct
  (** val eqb : nat -> nat -> bool **)

  let rec eqb n m =
    match n with
    | O -> (match m with
            | O -> true
            | S _ -> false)
    | S n' -> (match m with
               | O -> false
               | S m' -> eqb n' m')

  (** val leb : nat -> nat -> bool **)

  let rec leb n m =
    match n with
    | O -> true
    | S n' -> (match m with
               | O -> false
               | S m' -> leb n' m')

  (** val ltb : nat -> nat -> bool **)

  let ltb n m =
    leb (S n) m

  (** val compare : nat -> nat -> comparison **)

  let rec compare n m =
    match n with
    | O -> (match m with
            | O -> Eq
            | S _ -> Lt)
    | S n' -> (match m with
               | O -> Gt
               | S m' -> compare n' m')

  (** val max : nat -> nat -> nat **)

  let rec max n m =
    match n with
    | O -> m
    | S n' -> (match m with
               | O -> n
               | S m' -> S (max n' m'))
 end

(** val map : ('a1 -> 'a2) -> 'a1 list -> 'a2 list **)

let rec map f = function
| [] -> []
| a :: t -> (f a) :: (map f t)

(** val flat_map : ('a1 -> 'a2 list) -> 'a1 list -> 'a2 list **)

let rec flat_map f = function
| [] -> []
| x :: t -> app (f x) (flat_map f t)

(** val fold_left : ('a1 -> 'a2 -> 'a1) -> 'a2 list -> 'a1 -> 'a1 **)

let rec fold_left f l a0 =
  match l with
  | [] -> a0
  | b :: t -> fold_left f t (f a0 b)

(** val fold_right : ('a2 -> 'a1 -> 'a1) -> 'a1 -> 'a2 list -> 'a1 **)

let rec fold_right f a0 = function
| [] -> a0
| b :: t -> f b (fold_right f a0 t)

(** val existsb : ('a1 -> bool) -> 'a1 list -> bool **)

let rec existsb f = function
| [] -> false
| a :: l0 -> (||) (f a) (existsb f l0)

(** val forallb : ('a1 -> bool) -> 'a1 list -> bool **)

let rec forallb f = function
| [] -> true
| a :: l0 -> (&&) (f a) (forallb f l0)

(** val filter : ('a1 -> bool) -> 'a1 list -> 'a1 list **)

let rec filter f = function
| [] -> []
| x :: l0 -> if f x then x :: (filter f l0) else filter f l0

(** val list_max : nat list -> nat **)

let list_max l =
  fold_right max O l

type term =
| Var of nat
| Abs of term
| App of term * term

(** val size : term -> nat **)

let rec size = function
| Var _ -> S O
| Abs b -> S (size b)
| App (l, r0) -> S (add (size l) (size r0))

(** val is_abs : term -> bool **)

let is_abs = function
| Abs _ -> true
| _ -> false

(** val term_eqb : term -> term -> bool **)

let rec term_eqb t u =
  match t with
  | Var i -> (match u with
              | Var j -> Nat.eqb i j
              | _ -> false)
  | Abs a -> (match u with
              | Abs b -> term_eqb a b
              | _ -> false)
  | App (a, b) ->
    (match u with
     | App (c, d) -> (&&) (term_eqb a c) (term_eqb b d)
     | _ -> false)

(** val shift : nat -> nat -> term -> term **)

let rec shift d c = function
| Var i -> if Nat.ltb c i then Var (add i d) else Var i
| Abs b -> Abs (shift d (S c) b)
| App (l, r0) -> App ((shift d c l), (shift d c r0))

(** val subst : nat -> term -> term -> term **)

let rec subst k a = function
| Var i ->
  (match Nat.compare i k with
   | Eq -> shift (sub k (S O)) O a
   | Lt -> Var i
   | Gt -> Var (sub i (S O)))
| Abs b -> Abs (subst (S k) a b)
| App (l, r0) -> App ((subst k a l), (subst k a r0))

(** val up : (nat -> term) -> nat -> term **)

let up s = function
| O -> Var O
| S j -> (match j with
          | O -> Var (S O)
          | S _ -> shift (S O) O (s j))

(** val inst : (nat -> term) -> term -> term **)

let rec inst s = function
| Var i -> (match i with
            | O -> Var O
            | S _ -> s i)
| Abs b -> Abs (inst (up s) b)
| App (l, r0) -> App ((inst s l), (inst s r0))

(** val beta_sub : term -> nat -> term **)

let beta_sub a = function
| O -> Var O
| S j -> (match j with
          | O -> a
          | S _ -> Var j)

(** val neutralb : term -> bool **)

let rec neutralb = function
| Var _ -> true
| Abs _ -> false
| App (l, _) -> neutralb l

(** val nfb : term -> bool **)

let rec nfb = function
| Var _ -> true
| Abs b -> nfb b
| App (l, r0) -> (&&) ((&&) (negb (is_abs l)) (nfb l)) (nfb r0)

(** val whnfb : term -> bool **)

let whnfb t =
  (||) (is_abs t) (neutralb t)

(** val wnfb : term -> bool **)

let rec wnfb = function
| App (l, r0) -> (&&) ((&&) (negb (is_abs l)) (wnfb l)) (wnfb r0)
| _ -> true

(** val hnfb : term -> bool **)

let rec hnfb = function
| Var _ -> true
| Abs b -> hnfb b
| App (l, _) -> neutralb l

(** val fv_at : nat -> term -> nat list **)

let rec fv_at d = function
| Var i -> if Nat.ltb d i then (sub i d) :: [] else []
| Abs b -> fv_at (S d) b
| App (l, r0) -> app (fv_at d l) (fv_at d r0)

(** val fv : term -> nat list **)

let fv t =
  fv_at O t

(** val has_ud : term -> bool **)

let rec has_ud = function
| Var i -> Nat.eqb i O
| Abs b -> has_ud b
| App (l, r0) -> (||) (has_ud l) (has_ud r0)

(** val closed_at : nat -> term -> bool **)

let rec closed_at d = function
| Var i -> Nat.leb i d
| Abs b -> closed_at (S d) b
| App (l, r0) -> (&&) (closed_at d l) (closed_at d r0)

(** val closed : term -> bool **)

let closed t =
  closed_at O t

type order =
| NOR
| CBN
| HSP
| HNO
| APP
| CBV
| HAP

(** val step_cbn : term -> term option **)

let rec step_cbn = function
| App (l, r0) ->
  (match step_cbn l with
   | Some l' -> Some (App (l', r0))
   | None -> (match l with
              | Abs b -> Some (subst (S O) r0 b)
              | _ -> None))
| _ -> None

(** val step_nor : term -> term option **)

let rec step_nor = function
| Var _ -> None
| Abs b -> option_map (fun x -> Abs x) (step_nor b)
| App (l, r0) ->
  (match step_cbn l with
   | Some l' -> Some (App (l', r0))
   | None ->
     (match l with
      | Abs b -> Some (subst (S O) r0 b)
      | _ ->
        (match step_nor l with
         | Some l' -> Some (App (l', r0))
         | None -> option_map (fun x -> App (l, x)) (step_nor r0))))

(** val step_cbv : term -> term option **)

let rec step_cbv = function
| App (l, r0) ->
  (match step_cbv l with
   | Some l' -> Some (App (l', r0))
   | None ->
     (match step_cbv r0 with
      | Some r' -> Some (App (l, r'))
      | None -> (match l with
                 | Abs b -> Some (subst (S O) r0 b)
                 | _ -> None)))
| _ -> None

(** val step_app : term -> term option **)

let rec step_app = function
| Var _ -> None
| Abs b -> option_map (fun x -> Abs x) (step_app b)
| App (l, r0) ->
  (match step_app l with
   | Some l' -> Some (App (l', r0))
   | None ->
     (match step_app r0 with
      | Some r' -> Some (App (l, r'))
      | None -> (match l with
                 | Abs b -> Some (subst (S O) r0 b)
                 | _ -> None)))

(** val step_hsp : term -> term option **)

let rec step_hsp = function
| Var _ -> None
| Abs b -> option_map (fun x -> Abs x) (step_hsp b)
| App (l, r0) ->
  (match step_hsp l with
   | Some l' -> Some (App (l', r0))
   | None -> (match l with
              | Abs b -> Some (subst (S O) r0 b)
              | _ -> None))

(** val step_hno : term -> term option **)

let rec step_hno = function
| Var _ -> None
| Abs b -> option_map (fun x -> Abs x) (step_hno b)
| App (l, r0) ->
  (match step_hsp l with
   | Some l' -> Some (App (l', r0))
   | None ->
     (match l with
      | Abs b -> Some (subst (S O) r0 b)
      | _ ->
        (match step_hno l with
         | Some l' -> Some (App (l', r0))
         | None -> option_map (fun x -> App (l, x)) (step_hno r0))))

(** val step_hap : term -> term option **)

let rec step_hap = function
| Var _ -> None
| Abs b -> option_map (fun x -> Abs x) (step_hap b)
| App (l, r0) ->
  (match step_cbv l with
   | Some l' -> Some (App (l', r0))
   | None ->
     (match step_hap r0 with
      | Some r' -> Some (App (l, r'))
      | None ->
        (match l with
         | Abs b -> Some (subst (S O) r0 b)
         | _ -> option_map (fun l' -> App (l', r0)) (step_hap l))))

(** val step_of : order -> term -> term option **)

let step_of = function
| NOR -> step_nor
| CBN -> step_cbn
| HSP -> step_hsp
| HNO -> step_hno
| APP -> step_app
| CBV -> step_cbv
| HAP -> step_hap

(** val nf_of : order -> term -> bool **)

let nf_of = function
| CBN -> whnfb
| HSP -> hnfb
| CBV -> wnfb
| _ -> nfb

(** val iter : (term -> term option) -> nat -> term -> term option **)

let rec iter f n t =
  match n with
  | O -> Some t
  | S m -> (match f t with
            | Some u -> iter f m u
            | None -> None)

type dir =
| DL
| DR
| DB

type path = dir list

(** val is_redex : term -> bool **)

let is_redex = function
| App (l, _) -> (match l with
                 | Abs _ -> true
                 | _ -> false)
| _ -> false

(** val redexes_pre : term -> path list **)

let rec redexes_pre t =
  app (if is_redex t then [] :: [] else [])
    (match t with
     | Var _ -> []
     | Abs b -> map (fun x -> DB :: x) (redexes_pre b)
     | App (l, r0) ->
       app (map (fun x -> DL :: x) (redexes_pre l))
         (map (fun x -> DR :: x) (redexes_pre r0)))

(** val redexes_post : term -> path list **)

let rec redexes_post t =
  app
    (match t with
     | Var _ -> []
     | Abs b -> map (fun x -> DB :: x) (redexes_post b)
     | App (l, r0) ->
       app (map (fun x -> DL :: x) (redexes_post l))
         (map (fun x -> DR :: x) (redexes_post r0)))
    (if is_redex t then [] :: [] else [])

(** val contract_at : path -> term -> term option **)

let rec contract_at p t =
  match p with
  | [] ->
    (match t with
     | App (l, a) ->
       (match l with
        | Abs b -> Some (subst (S O) a b)
        | _ -> None)
     | _ -> None)
  | d :: p' ->
    (match d with
     | DL ->
       (match t with
        | App (l, r0) ->
          option_map (fun l' -> App (l', r0)) (contract_at p' l)
        | _ -> None)
     | DR ->
       (match t with
        | App (l, r0) ->
          option_map (fun r' -> App (l, r')) (contract_at p' r0)
        | _ -> None)
     | DB ->
       (match t with
        | Abs b -> option_map (fun x -> Abs x) (contract_at p' b)
        | _ -> None))

(** val under_abs : path -> bool **)

let under_abs p =
  existsb (fun d -> match d with
                    | DB -> true
                    | _ -> false) p

(** val head_path : path -> bool **)

let head_path p =
  forallb (fun d -> match d with
                    | DL -> true
                    | _ -> false) p

(** val spine_path : path -> bool **)

let spine_path p =
  forallb (fun d -> match d with
                    | DR -> false
                    | _ -> true) p

(** val first_path : path list -> path option **)

let first_path = function
| [] -> None
| p :: _ -> Some p

(** val pos_select : order -> term -> path option **)

let pos_select o t =
  match o with
  | NOR -> first_path (redexes_pre t)
  | CBN ->
    (match first_path (redexes_pre t) with
     | Some p -> if head_path p then Some p else None
     | None -> None)
  | APP -> first_path (redexes_post t)
  | CBV -> first_path (filter (fun p -> negb (under_abs p)) (redexes_post t))
  | _ -> None

(** val pos_step : order -> term -> term option **)

let pos_step o t =
  match pos_select o t with
  | Some p -> contract_at p t
  | None -> None

(** val reducts : term -> term list **)

let reducts t =
  flat_map (fun p ->
    match contract_at p t with
    | Some u -> u :: []
    | None -> []) (redexes_pre t)

(** val spine_reducts : term -> term list **)

let spine_reducts t =
  flat_map (fun p ->
    match contract_at p t with
    | Some u -> u :: []
    | None -> []) (filter spine_path (redexes_pre t))

(** val has_fv_spec : term -> bool **)

let has_fv_spec t =
  (||) (negb (closed t)) (has_ud t)

(** val strip : term -> term **)

let rec strip t = match t with
| Abs b -> strip b
| _ -> t

(** val leaf_depths : nat -> term -> nat list **)

let rec leaf_depths d = function
| Var _ -> d :: []
| Abs b -> leaf_depths (S d) b
| App (l, r0) -> app (leaf_depths d l) (leaf_depths d r0)

(** val max_depth_spec : term -> nat **)

let max_depth_spec t =
  list_max (leaf_depths O t)

(** val supercombb : nat -> term -> bool **)

let rec supercombb fuel t =
  match fuel with
  | O -> false
  | S f ->
    (&&) (closed t)
      (let rec aa e = match e with
       | Var _ -> true
       | Abs _ -> supercombb f e
       | App (l, r0) -> (&&) (aa l) (aa r0)
       in aa (strip t))

type term_error =
| NotVar
| NotAbs
| NotApp

(** val update_free_variables : nat -> nat -> term -> term **)

let rec update_free_variables added own = function
| Var i -> if Nat.ltb own i then Var (add i added) else Var i
| Abs b -> Abs (update_free_variables added (S own) b)
| App (l, r0) ->
  App ((update_free_variables added own l),
    (update_free_variables added own r0))

(** val apply_rec : term -> nat -> term -> term **)

let rec apply_rec rhs0 depth = function
| Var i ->
  (match Nat.compare i depth with
   | Eq -> update_free_variables (sub depth (S O)) O rhs0
   | Lt -> Var i
   | Gt -> Var (sub i (S O)))
| Abs b -> Abs (apply_rec rhs0 (S depth) b)
| App (l, r0) -> App ((apply_rec rhs0 depth l), (apply_rec rhs0 depth r0))

(** val apply_m : term -> term -> (term_error * term, term) sum **)

let apply_m t rhs0 =
  match t with
  | Abs _ ->
    (match apply_rec rhs0 O t with
     | Abs b' -> Inr b'
     | x -> Inl (NotAbs, x))
  | _ -> Inl (NotAbs, t)

(** val eval_m : term -> term **)

let eval_m t = match t with
| App (l, r0) -> (match apply_m l r0 with
                  | Inl _ -> t
                  | Inr t' -> t')
| _ -> t

(** val limit_hit : nat -> nat -> bool **)

let limit_hit limit count =
  (&&) (negb (Nat.eqb limit O)) (Nat.eqb count limit)

(** val is_reducible : term -> nat -> nat -> bool **)

let is_reducible t limit count =
  match t with
  | App (l, _) ->
    (match l with
     | Abs _ -> (||) (Nat.eqb limit O) (Nat.ltb count limit)
     | _ -> false)
  | _ -> false

type r = (term * nat) option

(** val bind : r -> (term -> nat -> r) -> r **)

let bind x k =
  match x with
  | Some p -> let (t, c) = p in k t c
  | None -> None

(** val ret : term -> nat -> r **)

let ret t c =
  Some (t, c)

(** val beta_cbn : nat -> nat -> nat -> term -> r **)

let rec beta_cbn fuel limit count t =
  match fuel with
  | O -> None
  | S f ->
    if limit_hit limit count
    then ret t count
    else (match t with
          | App (l, r0) ->
            bind (beta_cbn f limit count l) (fun l1 c1 ->
              let t1 = App (l1, r0) in
              if is_reducible t1 limit c1
              then beta_cbn f limit (S c1) (eval_m t1)
              else ret t1 c1)
          | _ -> ret t count)

(** val beta_nor : nat -> nat -> nat -> term -> r **)

let rec beta_nor fuel limit count t =
  match fuel with
  | O -> None
  | S f ->
    if limit_hit limit count
    then ret t count
    else (match t with
          | Var _ -> ret t count
          | Abs b ->
            bind (beta_nor f limit count b) (fun b1 c1 -> ret (Abs b1) c1)
          | App (l, r0) ->
            bind (beta_cbn f limit count l) (fun l1 c1 ->
              let t1 = App (l1, r0) in
              if is_reducible t1 limit c1
              then beta_nor f limit (S c1) (eval_m t1)
              else bind (beta_nor f limit c1 l1) (fun l2 c2 ->
                     bind (beta_nor f limit c2 r0) (fun r2 c3 ->
                       ret (App (l2, r2)) c3))))

(** val beta_cbv : nat -> nat -> nat -> term -> r **)

let rec beta_cbv fuel limit count t =
  match fuel with
  | O -> None
  | S f ->
    if limit_hit limit count
    then ret t count
    else (match t with
          | App (l, r0) ->
            bind (beta_cbv f limit count l) (fun l1 c1 ->
              bind (beta_cbv f limit c1 r0) (fun r1 c2 ->
                let t1 = App (l1, r1) in
                if is_reducible t1 limit c2
                then beta_cbv f limit (S c2) (eval_m t1)
                else ret t1 c2))
          | _ -> ret t count)

(** val beta_app : nat -> nat -> nat -> term -> r **)

let rec beta_app fuel limit count t =
  match fuel with
  | O -> None
  | S f ->
    if limit_hit limit count
    then ret t count
    else (match t with
          | Var _ -> ret t count
          | Abs b ->
            bind (beta_app f limit count b) (fun b1 c1 -> ret (Abs b1) c1)
          | App (l, r0) ->
            bind (beta_app f limit count l) (fun l1 c1 ->
              bind (beta_app f limit c1 r0) (fun r1 c2 ->
                let t1 = App (l1, r1) in
                if is_reducible t1 limit c2
                then beta_app f limit (S c2) (eval_m t1)
                else ret t1 c2)))

(** val beta_hap : nat -> nat -> nat -> term -> r **)

let rec beta_hap fuel limit count t =
  match fuel with
  | O -> None
  | S f ->
    if limit_hit limit count
    then ret t count
    else (match t with
          | Var _ -> ret t count
          | Abs b ->
            bind (beta_hap f limit count b) (fun b1 c1 -> ret (Abs b1) c1)
          | App (l, r0) ->
            bind (beta_cbv f limit count l) (fun l1 c1 ->
              bind (beta_hap f limit c1 r0) (fun r1 c2 ->
                let t1 = App (l1, r1) in
                if is_reducible t1 limit c2
                then beta_hap f limit (S c2) (eval_m t1)
                else bind (beta_hap f limit c2 l1) (fun l2 c3 ->
                       ret (App (l2, r1)) c3))))

(** val beta_hsp : nat -> nat -> nat -> term -> r **)

let rec beta_hsp fuel limit count t =
  match fuel with
  | O -> None
  | S f ->
    if limit_hit limit count
    then ret t count
    else (match t with
          | Var _ -> ret t count
          | Abs b ->
            bind (beta_hsp f limit count b) (fun b1 c1 -> ret (Abs b1) c1)
          | App (l, r0) ->
            bind (beta_hsp f limit count l) (fun l1 c1 ->
              let t1 = App (l1, r0) in
              if is_reducible t1 limit c1
              then beta_hsp f limit (S c1) (eval_m t1)
              else ret t1 c1))

(** val beta_hno : nat -> nat -> nat -> term -> r **)

let rec beta_hno fuel limit count t =
  match fuel with
  | O -> None
  | S f ->
    if limit_hit limit count
    then ret t count
    else (match t with
          | Var _ -> ret t count
          | Abs b ->
            bind (beta_hno f limit count b) (fun b1 c1 -> ret (Abs b1) c1)
          | App (l, r0) ->
            bind (beta_hsp f limit count l) (fun l1 c1 ->
              let t1 = App (l1, r0) in
              if is_reducible t1 limit c1
              then beta_hno f limit (S c1) (eval_m t1)
              else bind (beta_hno f limit c1 l1) (fun l2 c2 ->
                     bind (beta_hno f limit c2 r0) (fun r2 c3 ->
                       ret (App (l2, r2)) c3))))

(** val reduce_m : nat -> order -> nat -> term -> r **)

let reduce_m fuel o limit t =
  match o with
  | NOR -> beta_nor fuel limit O t
  | CBN -> beta_cbn fuel limit O t
  | HSP -> beta_hsp fuel limit O t
  | HNO -> beta_hno fuel limit O t
  | APP -> beta_app fuel limit O t
  | CBV -> beta_cbv fuel limit O t
  | HAP -> beta_hap fuel limit O t

(** val beta_fn : nat -> term -> order -> nat -> term option **)

let beta_fn fuel t o limit =
  option_map fst (reduce_m fuel o limit t)

(** val run_history :
    nat -> (order * nat) list -> term -> (term * nat list) option **)

let rec run_history fuel h t =
  match h with
  | [] -> Some (t, [])
  | p :: h' ->
    let (o, n) = p in
    (match reduce_m fuel o n t with
     | Some p0 ->
       let (t1, c) = p0 in
       (match run_history fuel h' t1 with
        | Some p1 -> let (t2, cs) = p1 in Some (t2, (c :: cs))
        | None -> None)
     | None -> None)

(** val unvar : term -> (term_error, nat) sum **)

let unvar = function
| Var n -> Inr n
| _ -> Inl NotVar

(** val unabs : term -> (term_error, term) sum **)

let unabs = function
| Abs b -> Inr b
| _ -> Inl NotAbs

(** val unapp : term -> (term_error, term * term) sum **)

let unapp = function
| App (l, r0) -> Inr (l, r0)
| _ -> Inl NotApp

(** val lhs : term -> (term_error, term) sum **)

let lhs t =
  match unapp t with
  | Inl _ -> Inl NotApp
  | Inr p -> let (l, _) = p in Inr l

(** val rhs : term -> (term_error, term) sum **)

let rhs t =
  match unapp t with
  | Inl _ -> Inl NotApp
  | Inr p -> let (_, r0) = p in Inr r0

(** val set_var : nat -> term -> term **)

let set_var n t = match t with
| Var _ -> Var n
| _ -> t

(** val set_abs : term -> term -> term **)

let set_abs b t = match t with
| Abs _ -> Abs b
| _ -> t

(** val set_app_l : term -> term -> term **)

let set_app_l x t = match t with
| App (_, r0) -> App (x, r0)
| _ -> t

(** val set_app_r : term -> term -> term **)

let set_app_r x t = match t with
| App (l, _) -> App (l, x)
| _ -> t

(** val abs_c : term -> term **)

let abs_c t =
  Abs t

(** val app_c : term -> term -> term **)

let app_c l r0 =
  App (l, r0)

(** val abs_macro : nat -> term -> term **)

let rec abs_macro n t =
  match n with
  | O -> t
  | S k -> abs_macro k (Abs t)

(** val app_macro : term -> term list -> term **)

let app_macro t1 args =
  fold_left app_c args t1

(** val has_free_variables_helper : nat -> term -> bool **)

let rec has_free_variables_helper depth = function
| Var x -> (||) (Nat.ltb depth x) (Nat.eqb x O)
| Abs p -> has_free_variables_helper (S depth) p
| App (f, a) ->
  (||) (has_free_variables_helper depth f) (has_free_variables_helper depth a)

(** val has_free_variables : term -> bool **)

let has_free_variables t =
  has_free_variables_helper O t

(** val max_depth : term -> nat **)

let rec max_depth = function
| Var _ -> O
| Abs b -> add (max_depth b) (S O)
| App (l, r0) -> Nat.max (max_depth l) (max_depth r0)

(** val is_isomorphic_to : term -> term -> bool **)

let rec is_isomorphic_to t u =
  match t with
  | Var x -> (match u with
              | Var y -> Nat.eqb x y
              | _ -> false)
  | Abs p -> (match u with
              | Abs q -> is_isomorphic_to p q
              | _ -> false)
  | App (fp, ap) ->
    (match u with
     | App (fq, aq) -> (&&) (is_isomorphic_to fp fq) (is_isomorphic_to ap aq)
     | _ -> false)

(** val child_depth : nat -> term -> nat **)

let child_depth depth t =
  if is_abs t then O else depth

(** val sc_loop : nat -> (nat * term) list -> bool option **)

let rec sc_loop fuel stack =
  match fuel with
  | O -> None
  | S f ->
    (match stack with
     | [] -> Some true
     | p :: rest ->
       let (depth, t) = p in
       (match t with
        | Var i -> if Nat.ltb depth i then Some false else sc_loop f rest
        | Abs b -> sc_loop f (((S depth), b) :: rest)
        | App (l, r0) ->
          sc_loop f (((child_depth depth r0), r0) :: (((child_depth depth l),
            l) :: rest))))

(** val is_supercombinator : term -> bool option **)

let is_supercombinator t =
  sc_loop (S (size t)) ((O, t) :: [])
