(** * Reference syntax of lambda expressions (C09): an independent lexer and a
      recursive-descent parser for the documented grammar

        G ::= A+  |  A* λ G          (a λ-body extends to the end of its group)
        A ::= index | name | ( G )

      application is left-nested; in Classic notation a name resolves to its
      innermost binder, otherwise it is free and numbered, in order of first
      appearance, above the binders in scope.  Three passes, each a few lines:
      lexer automaton, name resolution (lexical scoping by recursion), parser. *)
From LC Require Export Spec.Chars.

Inductive atok := TLam (binder : name) | TLp | TRp | TIdx (n : nat) | TName (s : name).

(** ** lexers (small automata over the documented lexical elements) *)
Inductive lex_result :=
| LexOk (ts : list atok)
| LexBadStart (i : nat) (c : N)      (* a character that cannot start any token *)
| LexBad.                             (* any other lexical error (inside a binder) *)

Fixpoint lex_dbr (i : nat) (s : list cchar) : lex_result :=
  match s with
  | [] => LexOk []
  | c :: r =>
      let k (t : list atok) := match lex_dbr (S i) r with LexOk ts => LexOk (t ++ ts) | e => e end in
      if is_lambda_glyph c then k [TLam []]
      else if is_char c_lparen c then k [TLp]
      else if is_char c_rparen c then k [TRp]
      else match to_digit16 c with
           | Some n => k [TIdx n]
           | None => if is_whitespace c then k [] else LexBadStart i (code c)
           end
  end.

(** states of the Classic lexer *)
Inductive lstate :=
| LTop                         (* between tokens *)
| LBinder0                     (* just after a lambda glyph: a letter is required *)
| LBinder (nm : name)          (* inside a binder name: letters/digits, then '.' *)
| LName (nm : name).           (* inside a variable name *)

Fixpoint lex_cla (st : lstate) (i : nat) (s : list cchar) : lex_result :=
  match s with
  | [] => match st with
          | LTop => LexOk []
          | LName nm => LexOk [TName nm]
          | LBinder0 => LexOk [TLam []]       (* a binder cut off by the end of the input: the parser *)
          | LBinder nm => LexOk [TLam nm]     (* rejects it, a lambda without body is ill-formed     *)
          end
  | c :: r =>
      let push (t : atok) (res : lex_result) := match res with LexOk ts => LexOk (t :: ts) | e => e end in
      let top (_ : unit) :=
        if is_lambda_glyph c then lex_cla LBinder0 (S i) r
        else if is_char c_lparen c then push TLp (lex_cla LTop (S i) r)
        else if is_char c_rparen c then push TRp (lex_cla LTop (S i) r)
        else if is_whitespace c then lex_cla LTop (S i) r
        else if is_alphabetic c then lex_cla (LName [code c]) (S i) r
        else LexBadStart i (code c) in
      match st with
      | LTop => top tt
      | LBinder0 => if is_alphabetic c then lex_cla (LBinder [code c]) (S i) r else LexBad
      | LBinder nm =>
          if is_char c_dot c then push (TLam nm) (lex_cla LTop (S i) r)
          else if is_alphanumeric c then lex_cla (LBinder (nm ++ [code c])) (S i) r
          else LexBad
      | LName nm =>
          if is_alphanumeric c then lex_cla (LName (nm ++ [code c])) (S i) r
          else push (TName nm) (top tt)
      end
  end.

(** ** name resolution: lexical scoping by recursion.

    [env]: the binders in scope, innermost first (a binder is in scope from its dot to the end of
    its group, so leaving a group restores the caller's [env]); [frees]: the free names in order of
    first appearance.  A name resolves to the position of its innermost binder, otherwise it is free
    and numbered above all binders in scope.  The pass emits one index token per input token and
    stops after an unmatched closing parenthesis (which the parser below then rejects). *)
Notation itok := token (only parsing).
Notation ILam := Lambda (only parsing). Notation ILp := Lparen (only parsing).
Notation IRp := Rparen (only parsing). Notation IIdx := Number (only parsing).

Fixpoint index_of (nm : name) (l : list name) : option nat :=
  match l with
  | [] => None
  | x :: r => if name_eqb x nm then Some 0 else option_map S (index_of nm r)
  end.

Fixpoint res_group (fuel : nat) (env frees : list name) (toks : list atok)
  : list itok * list atok * list name :=
  match fuel with 0 => ([], toks, frees) | S f =>
    match toks with
    | [] => ([], [], frees)
    | TLam b :: r =>
        let '(o, rest, fr) := res_group f (b :: env) frees r in (ILam :: o, rest, fr)
    | TLp :: r =>
        let '(o1, rest1, fr1) := res_group f env frees r in
        (* the group ended at its closing parenthesis (or at the end of the input) *)
        let '(o2, rest2, fr2) := res_group f env fr1 (tl rest1) in
        (ILp :: o1 ++ o2, rest2, fr2)
    | TRp :: _ => ([IRp], toks, frees)
    | TIdx n :: r =>
        let '(o, rest, fr) := res_group f env frees r in (IIdx n :: o, rest, fr)
    | TName s :: r =>
        match index_of s env with
        | Some i => let '(o, rest, fr) := res_group f env frees r in (IIdx (S i) :: o, rest, fr)
        | None =>
            let frees' := match index_of s frees with Some _ => frees | None => frees ++ [s] end in
            let j := match index_of s frees' with Some j => j | None => 0 end in
            let '(o, rest, fr) := res_group f env frees' r in (IIdx (length env + j + 1) :: o, rest, fr)
        end
    end
  end.
Definition resolve (toks : list atok) : list itok :=
  let '(o, _, _) := res_group (S (length toks)) [] [] toks in o.

(** ** parser for the grammar  G ::= A+ | A* λ G,  A ::= index | ( G ) *)
Definition apps (ts : list term) : option term :=
  match ts with [] => None | t :: r => Some (fold_left App r t) end.

Fixpoint rgroup (fuel : nat) (toks : list itok) {struct fuel} : option (term * list itok) :=
  match fuel with 0 => None | S f =>
    let fix ratoms (fuel2 : nat) (toks : list itok) {struct fuel2} : option (list term * list itok) :=
      match fuel2 with 0 => None | S f2 =>
        match toks with
        | IIdx n :: r =>
            match ratoms f2 r with Some (ts, r') => Some (Var n :: ts, r') | None => None end
        | ILp :: r =>
            match rgroup f r with
            | Some (t, IRp :: r') =>
                match ratoms f2 r' with Some (ts, r'') => Some (t :: ts, r'') | None => None end
            | _ => None
            end
        | _ => Some ([], toks)
        end
      end in
    match ratoms fuel toks with
    | None => None
    | Some (atoms, rest) =>
        match rest with
        | ILam :: rest' =>
            match rgroup f rest' with
            | Some (body, rest'') =>
                match apps (atoms ++ [Abs body]) with Some t => Some (t, rest'') | None => None end
            | None => None
            end
        | _ => match apps atoms with Some t => Some (t, rest) | None => None end
        end
    end
  end.

(** De Bruijn notation has no names: its tokens are index tokens already *)
Definition idx_tokens (ts : list atok) : list itok :=
  map (fun t => match t with TLam _ => ILam | TLp => ILp | TRp => IRp | TIdx n => IIdx n | TName _ => IIdx 0 end) ts.

Definition rparse (toks : list itok) : option term :=
  match rgroup (S (length toks)) toks with
  | Some (t, []) => Some t
  | _ => None
  end.

Inductive ref_result :=
| RefOk (t : term)
| RefBadStart (i : nat) (c : N)     (* must be reported as InvalidCharacter((i, c)) *)
| RefErr.                            (* must be some Err *)

Definition ref_parse (classic : bool) (s : list cchar) : ref_result :=
  match (if classic then lex_cla LTop 0 s else lex_dbr 0 s) with
  | LexOk ts => match rparse (if classic then resolve ts else idx_tokens ts) with Some t => RefOk t | None => RefErr end
  | LexBadStart i c => RefBadStart i c
  | LexBad => RefErr
  end.
