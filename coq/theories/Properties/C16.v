(** C16 — list operations agree with sequence semantics in all four list encodings.
    Proved for all lists: the conversions produce the documented closed forms (C12_containers).
    BOUNDED in-kernel grid on the generated constants: every list of length <= 3 over {0, 1}
    (Church numerals), all 4 x 5 constructors/observers and the 18 pair-list library functions,
    under NOR, HNO and HAP. *)
From LC Require Import Spec.Encodings Model.Reduction Model.Convert Gen.Terms Proofs.Convert Proofs.Grids.

Theorem C16_conversions : forall xs, into_pair_list xs = pair_list xs /\ into_church_list xs = church_list xs.
Proof. intros; split; [apply into_pair_list_spec|apply into_church_list_spec]. Qed.

Theorem C16_bounded_grid : forallb (fun b => b) list_grid = true.
Proof. exact list_grid_ok. Qed.

Print Assumptions C16_conversions.
Print Assumptions C16_bounded_grid.
