open Lc_model
open Common

(* ---------- apply *)
let do_apply f line =
  match f with
  | [ts; as_; res; arg_same] ->
      let t = parse_term ts and a = parse_term as_ in
      let model =
        match apply_m t a with
        | Inr r -> "ok " ^ ser r
        | Inl (_, r) -> "err NotAbs " ^ ser r
      in
      if model <> res then fail "corr:apply" ("model=" ^ model) line;
      if arg_same <> "true" then fail "oracle:C02:arg-modified" "" line;
      (match t with
       | Abs b ->
           let s1 = "ok " ^ ser (subst (S O) a b) in
           let s2 = "ok " ^ ser (inst (beta_sub a) b) in
           if res <> s1 then fail "oracle:C02:subst" ("expected=" ^ s1) line;
           if res <> s2 then fail "oracle:C02:parallel-subst" ("expected=" ^ s2) line;
           if String.length res > 3 && String.sub res 0 3 = "ok " then begin
             let r = parse_term (String.sub res 3 (String.length res - 3)) in
             if not (subset (fv r) (fv t @ fv a)) then fail "oracle:C08:apply-fv" "" line;
             if has_ud r && not (has_ud t || has_ud a) then fail "oracle:C08:apply-ud" "" line
           end;
           if not (term_eqb (subst (S O) a b) b) then note_nontrivial ("apply " ^ ts ^ "|" ^ as_)
       | _ ->
           let e = "err NotAbs " ^ ser t in
           if res <> e then fail "oracle:C02:notabs" ("expected=" ^ e) line;
           note_nontrivial ("apply-err " ^ ts));
      sample line
  | _ -> fail "format" "apply" line

(* ---------- reduce *)
let planted : (string, term) Hashtbl.t = Hashtbl.create 1024
let planted_head : (string, unit) Hashtbl.t = Hashtbl.create 1024
let nf_results : (string, string * string) Hashtbl.t = Hashtbl.create 4096

let do_reduce f line =
  match f with
  | [os; ls; ts; rs; cs] ->
      let o = order_of_string os and limit = int_of_string ls and t = parse_term ts in
      if String.length rs >= 5 && String.sub rs 0 5 = "panic" then begin
        fail "oracle:C01:panic" "implementation panicked" line;
        if Hashtbl.mem planted ts || Hashtbl.mem planted_head ts then fail "oracle:C07:panic" "" line
      end else begin
        let t' = parse_term rs and c = int_of_string cs in
        (* correspondence with the model of reduction.rs *)
        (match reduce_m big_fuel o (nat_of_int limit) t with
         | None -> bump counts "model-out-of-fuel"
         | Some (mt, mc) ->
             if ser mt <> rs || int_of_nat mc <> c then
               fail "corr:reduce" (Printf.sprintf "model=%s count=%d" (ser mt) (int_of_nat mc)) line);
        (* C01: genuine beta steps, exact count *)
        if c = 0 && not (term_eqb t t') then fail "oracle:C01:count0-changed" "" line;
        let chain_ok = (match iter (step_of o) (nat_of_int c) t with Some u -> term_eqb u t' | None -> false) in
        if not chain_ok then begin
          if c <= 3 && tsize t <= 40 then begin
            if not (reach c t t') then fail "oracle:C01:not-c-steps" "result not reachable in exactly count beta steps" line
          end else bump counts "c01-unchecked-chain"
        end;
        (* C03: stops exactly at the documented normal form *)
        if (limit = 0 || c < limit) && not (nf_of o t') then fail "oracle:C03:not-normal" "" line;
        if nf_of o t && (c <> 0 || not (term_eqb t t')) then fail "oracle:C03:not-idle" "" line;
        (* C04: hard bound; deterministic prefix of the single-step iteration *)
        if limit <> 0 && c > limit then fail "oracle:C04:bound" "" line;
        if not chain_ok then fail "oracle:C04:prefix" "result is not the count-fold iteration of the single step" line;
        (* C05: positional definition *)
        if limit = 1 then begin
          (match o with
           | NOR | CBN | APP | CBV ->
               (match pos_step o t with
                | Some u -> if c <> 1 || not (term_eqb u t') then fail "oracle:C05:position" ("expected=" ^ ser u) line
                | None -> if c <> 0 then fail "oracle:C05:position" "no redex selected" line)
           | HSP -> if c = 1 && not (mem_term t' (spine_reducts t)) then fail "oracle:C05:spine" "" line
           | _ -> ())
        end;
        (* C08 *)
        if not (subset (fv t') (fv t)) then fail "oracle:C08:fv" "" line;
        if has_ud t' && not (has_ud t) then fail "oracle:C08:ud" "" line;
        (* C07: planted normal forms *)
        (match Hashtbl.find_opt planted ts with
         | Some nf when limit = 0 ->
             (match o with
              | NOR | HNO -> if not (term_eqb t' nf) then fail "oracle:C07:normal-form" ("expected=" ^ ser nf) line
              | CBN -> if not (whnfb t') then fail "oracle:C07:whnf" "" line
              | HSP -> if not (hnfb t') then fail "oracle:C07:hnf" "" line
              | _ -> ())
         | Some nf ->
             (* eager orders: if they stopped before the limit they must agree (C06) *)
             if c < limit && (o = APP || o = HAP) && not (term_eqb t' nf) then
               fail "oracle:C06:eager-result" ("expected=" ^ ser nf) line
         | None -> ());
        (* C07: terms with a head normal form: CBN / HSP must return a (weak) head normal form *)
        if limit = 0 && Hashtbl.mem planted_head ts then begin
          (match o with
           | CBN -> if not (whnfb t') then fail "oracle:C07:whnf" "" line
           | HSP -> if not (hnfb t') then fail "oracle:C07:hnf" "" line
           | _ -> ())
        end;
        (* C06: normalising orders that both terminate leave the identical term *)
        if limit = 0 && (o = NOR || o = HNO || o = APP || o = HAP) then begin
          (match Hashtbl.find_opt nf_results ts with
           | Some (o2, r2) -> if r2 <> rs then fail "oracle:C06:orders-disagree" (Printf.sprintf "%s returned %s" o2 r2) line
           | None -> Hashtbl.replace nf_results ts (os, rs))
        end;
        if c > 0 then note_nontrivial ("reduce " ^ os ^ " " ^ ts);
        bump counts ("reduce-" ^ os);
        if limit <> 0 && c = limit then bump counts "reduce-hit-limit";
        if c > 0 then sample line
      end
  | _ -> fail "format" "reduce" line

(* ---------- histories *)
let do_history f line =
  match f with
  | [ts; hs; rs; cs] when rs <> "panic" ->
      let t = parse_term ts and t' = parse_term rs in
      (* a history may be empty (no call at all) *)
      let calls = if hs = "" then [] else List.map (fun s -> match String.split_on_char ':' s with
          | [o; n] -> (order_of_string o, int_of_string n) | _ -> failwith "hist") (String.split_on_char ',' hs) in
      let cnts = if cs = "" then [] else List.map int_of_string (String.split_on_char ',' cs) in
      (match run_history big_fuel (List.map (fun (o, n) -> (o, nat_of_int n)) calls) t with
       | None -> bump counts "model-out-of-fuel"
       | Some (mt, mcs) ->
           if ser mt <> rs || List.map int_of_nat mcs <> cnts then
             fail "corr:history" (Printf.sprintf "model=%s" (ser mt)) line);
      (* C04: a same-order history with positive limits equals the single-step iteration *)
      let orders = List.sort_uniq compare (List.map fst calls) in
      let total = List.fold_left (+) 0 cnts in
      (match orders with
       | [o] when List.for_all (fun (_, n) -> n > 0) calls ->
           (match iter (step_of o) (nat_of_int total) t with
            | Some u when term_eqb u t' -> ()
            | _ -> fail "oracle:C04:compose" "composed limited calls differ from the single-step iteration" line);
           (* each call must use its whole limit unless the term became normal *)
           let rec chk cs ns = match cs, ns with
             | c :: cs', (_, n) :: ns' ->
                 if c > n then fail "oracle:C04:bound" "" line;
                 if c < n && List.exists (fun x -> x > 0) cs' then fail "oracle:C04:resume" "reduction resumed after stopping early" line;
                 chk cs' ns'
             | _ -> () in
           chk cnts calls
       | _ -> ());
      (* C06: the history stays inside the reduction graph: same normal form *)
      (match normalize t 3000 4000 with
       | Some nf ->
           (match normalize t' 3000 4000 with
            | Some nf' -> if not (term_eqb nf nf') then fail "oracle:C06:normal-form" ("expected=" ^ ser nf) line
            | None -> fail "oracle:C06:lost-normal-form" "" line);
           bump counts "history-with-nf"
       | None -> ());
      (* C08 over histories *)
      if not (subset (fv t') (fv t)) then fail "oracle:C08:fv" "" line;
      if has_ud t' && not (has_ud t) then fail "oracle:C08:ud" "" line;
      if total > 0 then note_nontrivial ("history " ^ ts ^ hs);
      sample line
  | _ -> fail "oracle:C06:panic" "history" line

(* ---------- predicates, accessors *)
let res_nat = function Inr n -> "ok:" ^ string_of_int (int_of_nat n) | Inl e ->
  "err:" ^ (match e with NotVar -> "NotVar" | NotAbs -> "NotAbs" | NotApp -> "NotApp")
let err_s e = "err:" ^ (match e with NotVar -> "NotVar" | NotAbs -> "NotAbs" | NotApp -> "NotApp")
let res_term = function Inr t -> "ok:" ^ ser t | Inl e -> err_s e
let res_pair = function Inr (a, b) -> "ok:" ^ ser a ^ "|" ^ ser b | Inl e -> err_s e

let do_pred f line =
  match f with
  | [ts; hfv; sc; md] ->
      let t = parse_term ts in
      let b2s b = if b then "true" else "false" in
      let m_sc = (match is_supercombinator t with Some b -> b2s b | None -> "fuel") in
      if b2s (has_free_variables t) <> hfv || m_sc <> sc || string_of_int (int_of_nat (max_depth t)) <> md then
        fail "corr:pred" (Printf.sprintf "model=%s,%s,%d" (b2s (has_free_variables t)) m_sc (int_of_nat (max_depth t))) line;
      if b2s (has_fv_spec t) <> hfv then fail "oracle:C18:has_free_variables" "" line;
      if not (has_ud t) && b2s (supercombb (nat_of_int (tsize t + 1)) t) <> sc then fail "oracle:C18:is_supercombinator" "" line;
      if string_of_int (int_of_nat (max_depth_spec t)) <> md then fail "oracle:C18:max_depth" "" line;
      note_nontrivial ("pred " ^ ts); sample line
  | _ -> fail "format" "pred" line

let do_iso f line =
  match f with
  | [a; b; r] ->
      let ta = parse_term a and tb = parse_term b in
      let b2s b = if b then "true" else "false" in
      if b2s (is_isomorphic_to ta tb) <> r then fail "corr:iso" "" line;
      if b2s (a = b) <> r then fail "oracle:C18:is_isomorphic_to" "" line;
      note_nontrivial ("iso " ^ a ^ "|" ^ b)
  | _ -> fail "format" "iso" line

let do_acc f line =
  match f with
  | ts :: rest when List.length rest = 16 ->
      let t = parse_term ts in
      let r = Array.of_list rest in
      let uv = res_nat (unvar t) and ua = res_term (unabs t) and up = res_pair (unapp t)
      and l = res_term (lhs t) and rr = res_term (rhs t) in
      let model = [| uv; uv; uv; ua; ua; ua; up; up; up; l; l; l; rr; rr; rr |] in
      for i = 0 to 14 do
        if model.(i) <> r.(i) then fail "corr:acc" (Printf.sprintf "accessor#%d model=%s" i model.(i)) line
      done;
      if r.(15) <> "true" then fail "oracle:C19:read-modified-term" "" line;
      (* direct oracle from the constructors *)
      let exp = (match t with
        | Var n -> let n = string_of_int (int_of_nat n) in
            [| "ok:" ^ n; "err:NotAbs"; "err:NotApp"; "err:NotApp"; "err:NotApp" |]
        | Abs b -> [| "err:NotVar"; "ok:" ^ ser b; "err:NotApp"; "err:NotApp"; "err:NotApp" |]
        | App (a, b) -> [| "err:NotVar"; "err:NotAbs"; "ok:" ^ ser a ^ "|" ^ ser b; "ok:" ^ ser a; "ok:" ^ ser b |]) in
      for i = 0 to 14 do
        if exp.(i / 3) <> r.(i) then fail "oracle:C19:accessor" (Printf.sprintf "accessor#%d expected=%s" i exp.(i / 3)) line
      done;
      note_nontrivial ("acc " ^ ts)
  | _ -> fail "format" "acc" line

let do_mutw f line =
  match f with
  | [ts; w1; w2; w3; w4; w5; w6] ->
      let t = parse_term ts in
      let newt = App (Var (nat_of_int 7), Abs (Var (nat_of_int 9))) in
      let model = [ ser (set_var (nat_of_int 42) t); ser (set_abs newt t); ser (set_app_l newt t);
                    ser (set_app_r newt t); ser (set_app_l newt t); ser (set_app_r newt t) ] in
      if model <> [w1; w2; w3; w4; w5; w6] then fail "corr:mutw" "" line;
      let exp = (match t with
        | Var _ -> [ "V42"; ts; ts; ts; ts; ts ]
        | Abs _ -> [ ts; ser (Abs newt); ts; ts; ts; ts ]
        | App (a, b) -> [ ts; ts; ser (App (newt, b)); ser (App (a, newt)); ser (App (newt, b)); ser (App (a, newt)) ]) in
      if exp <> [w1; w2; w3; w4; w5; w6] then fail "oracle:C19:mut-write" "" line
  | _ -> fail "format" "mutw" line

let do_ctor f line =
  match f with
  | [a; b; ra; rab] ->
      let ta = parse_term a and tb = parse_term b in
      if ser (abs_c ta) <> ra || ser (app_c ta tb) <> rab then fail "corr:ctor" "" line;
      if ser (Abs ta) <> ra || ser (App (ta, tb)) <> rab then fail "oracle:C19:ctor" "" line
  | _ -> fail "format" "ctor" line

let do_appm f line =
  match f with
  | [h; args; r2; r3; r4] ->
      let th = parse_term h in
      let al = List.map parse_term (List.filter (fun s -> s <> "") (String.split_on_char '|' args)) in
      (match al with
       | [b; c; d] ->
           if ser (app_macro th [b]) <> r2 || ser (app_macro th [b; c]) <> r3 || ser (app_macro th [b; c; d]) <> r4 then
             fail "corr:appm" "" line;
           if ser (App (th, b)) <> r2 || ser (App (App (th, b), c)) <> r3 || ser (App (App (App (th, b), c), d)) <> r4 then
             fail "oracle:C19:app-macro" "" line
       | _ -> fail "format" "appm-args" line)
  | _ -> fail "format" "appm" line

let do_absm f line =
  match f with
  | [n; a; r] ->
      let ta = parse_term a and n = int_of_string n in
      if ser (abs_macro (nat_of_int n) ta) <> r then fail "corr:absm" "" line;
      let rec absn k t = if k = 0 then t else Abs (absn (k - 1) t) in
      if ser (absn n ta) <> r then fail "oracle:C19:abs-macro" "" line
  | _ -> fail "format" "absm" line


(* ---------- metamorphic lines: UD as a fresh free variable, free indices shifted by 2^32 *)
let rec replace_ud k depth = function
  | Var O -> Var (nat_of_int (depth + k))
  | Var n -> Var n
  | Abs b -> Abs (replace_ud k (depth + 1) b)
  | App (l, r) -> App (replace_ud k depth l, replace_ud k depth r)

let do_meta kind f line =
  match f with
  | [what; _o; _limit; _input; r1; c1; r2; c2] ->
      let tags = if what = "apply" then ["C02"; "C08"] else ["C01"; "C08"] in
      if r1 = "panic" || r2 = "panic" then
        List.iter (fun p -> fail ("oracle:" ^ p ^ ":panic") "implementation panicked" line) tags
      else begin
        let ok =
          if kind = "meta-ud" then ser (replace_ud 40 0 (parse_term r1)) = r2 && c1 = c2
          else r1 = r2 && c1 = c2 in
        if not ok then
          List.iter (fun p -> fail ("oracle:" ^ p ^ (if kind = "meta-ud" then ":ud-not-inert" else ":free-variable-renumbered"))
                        (if kind = "meta-ud" then "replacing UD by a fresh free variable does not commute with the operation"
                         else "shifting every free index by 2^32 does not commute with the operation") line) tags;
        note_nontrivial (kind ^ _input ^ _o); if c1 <> "0" then sample line
      end
  | _ -> fail "format" kind line

let json_escape s =
  let b = Buffer.create (String.length s + 8) in
  String.iter (fun c -> match c with
    | '"' -> Buffer.add_string b "\\\"" | '\\' -> Buffer.add_string b "\\\\"
    | '\t' -> Buffer.add_string b "\\t" | '\n' -> Buffer.add_string b "\\n"
    | c when Char.code c < 32 -> Buffer.add_string b (Printf.sprintf "\\u%04x" (Char.code c))
    | c -> Buffer.add_char b c) s;
  Buffer.contents b

let () =
  Array.iter (fun a -> if a = "--backslash" then Common.backslash := true) Sys.argv;
  let n = ref 0 in
  (try
     while true do
       let line = input_line stdin in
       incr n;
       let f = String.split_on_char '\t' line in
       (try
          match f with
          | "apply" :: r -> bump counts "apply"; do_apply r line
          | "reduce" :: r -> do_reduce r line
          | "history" :: r -> bump counts "history"; do_history r line
          | "planted" :: [t; nf] -> bump counts "planted"; Hashtbl.replace planted t (parse_term nf)
          | "planted-head" :: [t; _] -> bump counts "planted-head"; Hashtbl.replace planted_head t ()
          | "pred" :: r -> bump counts "pred"; do_pred r line
          | "iso" :: r -> bump counts "iso"; do_iso r line
          | "acc" :: r -> bump counts "acc"; do_acc r line
          | "mutw" :: r -> bump counts "mutw"; do_mutw r line
          | "ctor" :: r -> bump counts "ctor"; do_ctor r line
          | "appm" :: r -> bump counts "appm"; do_appm r line
          | "deepsc" :: [kind; n; ok] ->
              bump counts "deepsc";
              if ok <> "true" then begin
                if kind = "lhs-spine" then fail "oracle:C19:deep-accessor" ("consuming accessor fails on a spine of " ^ n ^ " applications (512 KiB stack)") line
                else fail "oracle:C18:deep-predicate" ("is_supercombinator fails on a term " ^ n ^ " binders deep (512 KiB stack)") line
              end;
              note_nontrivial ("deepsc" ^ kind ^ n)
          | "metapred" :: [bb; input; ok] ->
              bump counts "metapred";
              if ok <> "true" then fail "oracle:C18:large-index" ("a predicate changes when every free index is moved by " ^ bb) line;
              note_nontrivial ("metapred" ^ bb ^ input)
          | "apporder" :: [n; expected; got] ->
              bump counts "apporder";
              if expected <> got then fail "oracle:C19:app-macro-order" "app! does not apply its operands left to right" line;
              note_nontrivial ("apporder" ^ n)
          | "biglimit" :: [o; lim; _; _; ok] ->
              bump counts "biglimit";
              if ok <> "true" then fail "oracle:C04:huge-limit" ("a limit of " ^ lim ^ " that is never reached changes the result") line;
              note_nontrivial ("biglimit" ^ o ^ lim)
          | "longrun" :: [o; n; c0; sum; same] ->
              bump counts "longrun";
              if c0 <> n || sum <> n || same <> "true" then
                fail "oracle:C04:long-run" ("a run of " ^ n ^ " contractions: unlimited call counted " ^ c0 ^ ", chunked calls " ^ sum) line;
              note_nontrivial ("longrun" ^ o)
          | "absm" :: r -> bump counts "absm"; do_absm r line
          | "meta-orders" :: [_; input; n; agree; _] ->
              bump counts "meta-orders";
              if agree <> "1" then fail "oracle:C06:orders-disagree-large-index" "normalising orders disagree on a term with very large free indices" line;
              note_nontrivial ("meta-orders" ^ input ^ n)
          | "meta-ud" :: r -> bump counts "meta-ud"; do_meta "meta-ud" r line
          | "meta-shift" :: r -> bump counts "meta-shift"; do_meta "meta-shift" r line
          | "CRASH" :: r -> fail "oracle:crash" "the implementation crashed (stack overflow / abort) while running this suite" (String.concat " " r)
          | "HANG" :: r -> fail "oracle:hang" "implementation made no progress for 30 s" (String.concat " " r)
          | _ -> Extra.dispatch f line
        with
        | Stack_overflow -> fail "driver:stack-overflow" "" line
        | Failure m -> fail "driver:failure" m line
        | Invalid_argument m -> fail "driver:invalid" m line
        | Not_found -> fail "driver:notfound" "" line)
     done
   with End_of_file -> ());
  let cj = String.concat "," (Hashtbl.fold (fun k v acc -> Printf.sprintf "\"%s\":%d" (json_escape k) v :: acc) counts []) in
  let fj = String.concat "," (Hashtbl.fold (fun k v acc -> Printf.sprintf "\"%s\":%d" (json_escape k) v :: acc) fail_tags []) in
  let sj = String.concat "," (List.rev_map (fun s -> "\"" ^ json_escape s ^ "\"") !samples) in
  Printf.printf "STATS\t{\"lines\":%d,\"fails\":%d,\"distinct_nontrivial\":%d,\"counts\":{%s},\"fail_tags\":{%s},\"samples\":[%s]}\n"
    !n !fails !nontrivial cj fj sj
