(** C11 — De Bruijn-notation Debug output parses back to the identical term.

    PARTIAL at the level of theorems: the format clause is proved (all terms with indices 1..15,
    both glyphs); the round trip is decided by the check (implementation and model). *)
From LC Require Import Model.Display Spec.Printing Proofs.Printing.

Theorem C11_format : forall lam t, indices_in 1 15 t = true -> debug lam t = ref_print_dbr lam t.
Proof. exact debug_format. Qed.

Example C11_example :
  debug 955%N (App (Var 15) (App (Abs (Var 10)) (App (Var 1) (Var 2)))) = [70; 40; 40; 955; 65; 41; 40; 49; 50; 41; 41]%N.
Proof. vm_compute. reflexivity. Qed.

Print Assumptions C11_format.
