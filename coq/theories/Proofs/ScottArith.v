(** * Scott numerals for ALL numbers (C14), on the generated constants *)
From LC Require Import Spec.NorEval Spec.Encodings Gen.Terms Proofs.Laws Proofs.Convert Proofs.ChurchArith.

Ltac head_step := repeat first [apply s_beta | apply s_appl].
Ltac simp_subst :=
  cbn [subst shift Nat.compare Nat.ltb Nat.leb Nat.sub Nat.add];
  repeat first
    [ rewrite subst_shift_cancel by lia
    | rewrite shift_shift by lia
    | rewrite shift_0 ];
  cbn [Nat.sub Nat.add].
Ltac hbeta := eapply star_step; [head_step|]; simp_subst.
Ltac done_red := apply star_refl.

Lemma shift_scott d c n : shift d c (scott n) = scott n.
Proof. apply shift_closed, scott_closed. Qed.
Lemma subst_scott k a n : 1 <= k -> subst k a (scott n) = scott n.
Proof. intros. apply subst_closed; auto. apply scott_closed. Qed.

Ltac inst_scott H ps :=
  let X := fresh "X" in
  pose proof (instantiate ps _ _ H) as X;
  cbn [inst payloads nth up] in X;
  repeat rewrite inst_closed in X by reflexivity;
  repeat rewrite shift_scott in X; repeat rewrite shift_church in X.

(** the eliminator: a Scott numeral applied to a zero-case and a successor-case *)
Lemma scott_case_zero z s : red (scott 0 @ z @ s) z.
Proof. unfold scott. do 2 hbeta. done_red. Qed.
Lemma scott_case_succ k z s : red (scott (S k) @ z @ s) (s @ scott k).
Proof.
  change (scott (S k)) with (Abs (Abs (v1 @ scott k))).
  eapply star_step; [apply s_appl, s_beta|]. cbn [subst Nat.compare Nat.sub]. rewrite subst_scott by lia.
  eapply star_step; [apply s_beta|]. cbn [subst Nat.compare Nat.sub]. rewrite subst_scott by lia. rewrite shift_0.
  apply star_refl.
Qed.

(** succ, pred, is_zero *)
Lemma ssucc_open : red (lc_num_scott_succ @ v1) (Abs (Abs (v1 @ v3))). Proof. open_law. Qed.
Theorem scott_succ n : red (lc_num_scott_succ @ scott n) (scott (S n)).
Proof. inst_scott ssucc_open [scott n]. exact X. Qed.

Lemma spred_open : red (lc_num_scott_pred @ v1) (v1 @ scott 0 @ Abs v1). Proof. open_law. Qed.
Theorem scott_pred n : red (lc_num_scott_pred @ scott n) (scott (pred n)).
Proof.
  inst_scott spred_open [scott n]. eapply star_trans; [exact X|]. destruct n.
  - apply scott_case_zero.
  - eapply star_trans; [apply scott_case_succ|]. hbeta. done_red.
Qed.

Lemma sis_zero_open : red (lc_num_scott_is_zero @ v1) (v1 @ lc_boolean_tru @ Abs lc_boolean_fls). Proof. open_law. Qed.
Theorem scott_is_zero n : red (lc_num_scott_is_zero @ scott n) (bool_t (n =? 0)).
Proof.
  inst_scott sis_zero_open [scott n]. eapply star_trans; [exact X|]. destruct n.
  - apply scott_case_zero.
  - eapply star_trans; [apply scott_case_succ|]. hbeta. done_red.
Qed.

(** add: Z (λf m n. m n (λo. succ (f o n))) *)
Definition saddG : term := Abs (Abs (Abs (v2 @ v1 @ Abs (lc_num_scott_succ @ (v4 @ v1 @ v2))))).
Lemma sadd_shape : lc_num_scott_add = lc_combinators_Z @ saddG. Proof. reflexivity. Qed.

Ltac hbs := eapply star_step; [repeat first [apply s_beta | apply s_appl]|];
  cbn [subst Nat.compare Nat.sub];
  repeat rewrite subst_closed by (reflexivity || lia || apply scott_closed || apply church_closed || (apply Rz_closed; reflexivity));
  repeat rewrite shift_closed by (reflexivity || apply scott_closed || apply church_closed || (apply Rz_closed; reflexivity));
  rewrite ?shift_0.

Lemma sadd_rec : forall m n, red (Rz saddG @ scott m @ scott n) (scott (m + n)).
Proof.
  induction m as [|m IH]; intros n.
  - assert (C : closed saddG = true) by reflexivity.
    eapply star_trans; [apply red_appl, red_appl, (Z_unfold saddG C)|].
    unfold saddG at 1. hbs. hbs. hbs. fold saddG. apply scott_case_zero.
  - assert (C : closed saddG = true) by reflexivity.
    eapply star_trans; [apply red_appl, red_appl, (Z_unfold saddG C)|].
    unfold saddG at 1. hbs. hbs. hbs. fold saddG.
    eapply star_trans; [apply scott_case_succ|]. hbs.
    eapply star_trans; [apply red_appr, red_appl, (Z_call saddG _ C)|].
    eapply star_trans; [apply red_appr, IH|]. apply scott_succ.
Qed.
Theorem scott_add m n : red (lc_num_scott_add @ scott m @ scott n) (scott (m + n)).
Proof.
  rewrite sadd_shape. eapply star_trans; [apply red_appl, red_appl, Z_start; reflexivity|]. apply sadd_rec.
Qed.

(** mul: Z (λf m n. m zero (λo. add n (f o n))) *)
Definition smulG : term := Abs (Abs (Abs (v2 @ scott 0 @ Abs (lc_num_scott_add @ v2 @ (v4 @ v1 @ v2))))).
Lemma smul_shape : lc_num_scott_mul = lc_combinators_Z @ smulG. Proof. reflexivity. Qed.
Lemma smul_rec : forall m n, red (Rz smulG @ scott m @ scott n) (scott (m * n)).
Proof.
  induction m as [|m IH]; intros n.
  - assert (C : closed smulG = true) by reflexivity.
    eapply star_trans; [apply red_appl, red_appl, (Z_unfold smulG C)|].
    unfold smulG at 1. hbs. hbs. hbs. fold smulG. apply scott_case_zero.
  - assert (C : closed smulG = true) by reflexivity.
    eapply star_trans; [apply red_appl, red_appl, (Z_unfold smulG C)|].
    unfold smulG at 1. hbs. hbs. hbs. fold smulG.
    eapply star_trans; [apply scott_case_succ|]. hbs.
    eapply star_trans; [apply red_appr, red_appl, (Z_call smulG _ C)|].
    eapply star_trans; [apply red_appr, IH|]. simpl Nat.mul. apply scott_add.
Qed.
Theorem scott_mul m n : red (lc_num_scott_mul @ scott m @ scott n) (scott (m * n)).
Proof.
  rewrite smul_shape. eapply star_trans; [apply red_appl, red_appl, Z_start; reflexivity|]. apply smul_rec.
Qed.

(** pow: Z (λf m n. n one (λo. mul m (f m o))) *)
Definition spowG : term := Abs (Abs (Abs (v1 @ scott 1 @ Abs (lc_num_scott_mul @ v3 @ (v4 @ v3 @ v1))))).
Lemma spow_shape : lc_num_scott_pow = lc_combinators_Z @ spowG. Proof. reflexivity. Qed.
Lemma spow_rec : forall n m, red (Rz spowG @ scott m @ scott n) (scott (m ^ n)).
Proof.
  induction n as [|n IH]; intros m.
  - assert (C : closed spowG = true) by reflexivity.
    eapply star_trans; [apply red_appl, red_appl, (Z_unfold spowG C)|].
    unfold spowG at 1. hbs. hbs. hbs. fold spowG. apply scott_case_zero.
  - assert (C : closed spowG = true) by reflexivity.
    eapply star_trans; [apply red_appl, red_appl, (Z_unfold spowG C)|].
    unfold spowG at 1. hbs. hbs. hbs. fold spowG.
    eapply star_trans; [apply scott_case_succ|]. hbs.
    eapply star_trans; [apply red_appr, red_appl, (Z_call spowG _ C)|].
    eapply star_trans; [apply red_appr, IH|]. simpl Nat.pow. apply scott_mul.
Qed.
Theorem scott_pow m n : red (lc_num_scott_pow @ scott m @ scott n) (scott (m ^ n)).
Proof.
  rewrite spow_shape. eapply star_trans; [apply red_appl, red_appl, Z_start; reflexivity|]. apply spow_rec.
Qed.

(** ** conversions between Church and Scott numerals *)
Lemma c2s_open : red (lc_num_church_to_scott @ v1) (v1 @ lc_num_scott_succ @ scott 0). Proof. open_law. Qed.
Lemma iter_ssucc n : red (iter_app n lc_num_scott_succ (scott 0)) (scott n).
Proof.
  induction n; simpl; [apply star_refl|].
  eapply star_trans; [apply red_appr; exact IHn|]. apply scott_succ.
Qed.
Theorem church_to_scott n : red (lc_num_church_to_scott @ church n) (scott n).
Proof.
  inst_scott c2s_open [church n]. eapply star_trans; [exact X|].
  eapply star_trans; [apply church_iter|]. apply iter_ssucc.
Qed.

Definition tcG : term := Abs (Abs (Abs (Abs (v1 @ v2 @ Abs (v4 @ (Var 5 @ v4 @ v3 @ v1)))))).
Lemma s2c_shape : lc_num_scott_to_church = Abs (Abs (Abs (lc_combinators_Z @ tcG @ v2 @ v1 @ v3))). Proof. reflexivity. Qed.

Ltac hbv := eapply star_step; [repeat first [apply s_beta | apply s_appl]|];
  cbn [subst shift Nat.compare Nat.sub Nat.ltb Nat.leb Nat.add];
  repeat rewrite subst_closed by (reflexivity || lia || apply scott_closed || apply church_closed || (apply Rz_closed; reflexivity));
  repeat rewrite shift_closed by (reflexivity || apply scott_closed || apply church_closed || (apply Rz_closed; reflexivity));
  rewrite ?shift_0.

Lemma s2c_rec : forall n, red (Rz tcG @ v2 @ v1 @ scott n) (iter_app n v2 v1).
Proof.
  assert (C : closed tcG = true) by reflexivity.
  induction n as [|n IH].
  - eapply star_trans; [apply red_appl, red_appl, red_appl, (Z_unfold tcG C)|].
    unfold tcG at 1. hbv. hbv. hbv. hbv. fold tcG. apply scott_case_zero.
  - eapply star_trans; [apply red_appl, red_appl, red_appl, (Z_unfold tcG C)|].
    unfold tcG at 1. hbv. hbv. hbv. hbv. fold tcG.
    eapply star_trans; [apply scott_case_succ|]. hbv.
    simpl iter_app. apply red_appr.
    eapply star_trans; [apply red_appl, red_appl, (Z_call tcG _ C)|]. exact IH.
Qed.
Theorem scott_to_church n : red (lc_num_scott_to_church @ scott n) (church n).
Proof.
  rewrite s2c_shape. hbv. unfold church. apply red_abs, red_abs.
  eapply star_trans; [apply red_appl, red_appl, red_appl, Z_start; reflexivity|]. apply s2c_rec.
Qed.
