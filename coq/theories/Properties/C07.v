(** C07 — NOR (and HNO) reach every existing normal form; CBN (and HSP) the head forms *)
From LC Require Import Model.Reduction Spec.Confluence Spec.Standard Proofs.Sound Proofs.ReduceProps Proofs.Normalise.

(** standardisation, the theorem of the calculus everything below rests on *)
Theorem C07_standardization : forall t u, red t u -> st t u.
Proof. exact standardization. Qed.

Theorem C07_nor : forall t v, red t v -> nfb v = true -> exists fuel c, reduce_m fuel NOR 0 t = Some (v, c).
Proof. exact nor_normalises. Qed.

Theorem C07_cbn : forall t w, red t w -> whnfb w = true -> exists fuel r, reduce_m fuel CBN 0 t = Some r.
Proof. exact cbn_normalises. Qed.

(** HNO and HSP: what is proved is partial.  If HNO terminates, its result is the normal form
    (soundness, for every term); termination of HNO/HSP whenever the (head) normal form exists is
    NOT proved here (it needs the head-spine strip lemma, DESIGN.md section 4 C07 (d),(e));
    the check decides that clause by running the implementation on terms with planted normal forms. *)
Theorem C07_hno_partial : forall fuel t v u c, red t v -> nfb v = true ->
  reduce_m fuel HNO 0 t = Some (u, c) -> u = v.
Proof.
  intros fuel t v u c R N H.
  pose proof (reduce_stops_normal _ _ _ _ _ _ H (or_introl eq_refl)) as Nu. simpl in Nu.
  apply reduce_steps, steps_star in H.
  eapply nf_unique; eauto; apply nfb_nf; auto.
Qed.

Theorem C07_hsp_partial : forall fuel t u c, reduce_m fuel HSP 0 t = Some (u, c) -> hnfb u = true /\ red t u.
Proof.
  intros fuel t u c H. split.
  - apply (reduce_stops_normal _ _ _ _ _ _ H (or_introl eq_refl)).
  - eapply steps_star, reduce_steps; eauto.
Qed.

(** non-vacuity, and "even when eager orders diverge": (λ.2) Ω *)
Definition omega := App (Abs (App (Var 1) (Var 1))) (Abs (App (Var 1) (Var 1))).
Example C07_example_nor : reduce_m 20 NOR 0 (App (Abs (Var 2)) omega) = Some (Var 1, 1).
Proof. reflexivity. Qed.
Example C07_example_app_diverges : reduce_m 300 APP 0 (App (Abs (Var 2)) omega) = None.
Proof. vm_compute. reflexivity. Qed.

Print Assumptions C07_standardization.
Print Assumptions C07_nor.
Print Assumptions C07_cbn.
Print Assumptions C07_hno_partial.
Print Assumptions C07_hsp_partial.
