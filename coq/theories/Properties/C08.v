(** C08 — reduction never invents variables: closed terms stay closed, UD stays UD *)
From LC Require Import Model.Reduction Proofs.Apply Proofs.Sound Proofs.ReduceProps.

(** [fv t] collects (index - binder depth) for the indices above their depth *)
Theorem C08_reduce : forall fuel o n t t' c, reduce_m fuel o n t = Some (t', c) ->
  incl (fv t') (fv t) /\ (has_ud t' = true -> has_ud t = true).
Proof. exact reduce_fv. Qed.

Theorem C08_apply : forall b a r, apply_m (Abs b) a = inr r ->
  incl (fv r) (fv (Abs b) ++ fv a) /\ (has_ud r = true -> has_ud b = true \/ has_ud a = true).
Proof.
  intros b a r H. rewrite apply_m_abs in H. inversion H; subst. split.
  - apply fv_subst1.
  - apply has_ud_subst; lia.
Qed.

Theorem C08_closed : forall fuel o n t t' c, reduce_m fuel o n t = Some (t', c) ->
  closed t = true -> closed t' = true.
Proof.
  intros fuel o n t t' c H C. apply reduce_fv in H. destruct H as [H _].
  apply closed_fv in C. apply closed_fv. rewrite C in H. destruct (fv t'); auto.
  exfalso. apply (H n0). left; auto.
Qed.

Theorem C08_history : forall h fuel t t' cs, run_history fuel h t = Some (t', cs) ->
  incl (fv t') (fv t) /\ (has_ud t' = true -> has_ud t = true).
Proof. intros. eapply red_fv, history_red; eauto. Qed.

(** the underlying fact about the calculus *)
Theorem C08_step : forall t u, step t u -> incl (fv u) (fv t) /\ (has_ud u = true -> has_ud t = true).
Proof. intros t u H. split; [apply (step_fv_at _ _ H 0)|apply step_has_ud; auto]. Qed.

Example C08_example : fv (Abs (App (Var 3) (App (Var 1) (Var 0)))) = [2] /\ has_ud (Abs (App (Var 3) (Var 0))) = true.
Proof. split; reflexivity. Qed.

Print Assumptions C08_reduce.
Print Assumptions C08_apply.
Print Assumptions C08_closed.
Print Assumptions C08_history.
Print Assumptions C08_step.
