(** * The numeral constructors produce the documented closed forms, which are closed, normal and decodable (C12) *)
From Coq Require Import ZArith ZifyNat ZifyBool Lia.
From LC Require Import Spec.Encodings Model.Convert Proofs.TermOps.
Ltac Zify.zify_post_hook ::= Z.div_mod_to_equations.

(** ** loops = closed forms *)
Lemma iter_app_comm n g x : iter_app n g (App g x) = App g (iter_app n g x).
Proof. induction n; simpl; congruence. Qed.

Lemma repeat_app n g x : repeat_fn n (fun ret => app_c g ret) x = iter_app n g x.
Proof.
  revert x; induction n; intros x; simpl; auto.
  rewrite IHn. unfold app_c. apply iter_app_comm.
Qed.

Theorem into_church_spec n : into_church n = church n.
Proof. unfold into_church, church. rewrite repeat_app. reflexivity. Qed.

Lemma into_scott_from n m :
  repeat_fn n (fun ret => abs_macro 2 (app_c (Var 1) ret)) (scott m) = scott (n + m).
Proof.
  revert m; induction n; intros m; cbn [repeat_fn]; auto.
  change (abs_macro 2 (app_c (Var 1) (scott m))) with (scott (S m)). rewrite IHn. f_equal; lia.
Qed.
Theorem into_scott_spec n : into_scott n = scott n.
Proof. unfold into_scott. change (abs_macro 2 (Var 2)) with (scott 0). rewrite into_scott_from. f_equal; lia. Qed.

Lemma parigot_shape k : exists b, parigot k = Abs (Abs b).
Proof. destruct k; simpl; eauto. Qed.
Lemma unabs2_parigot k : unabs2 (parigot k) = body2 (parigot k).
Proof. destruct (parigot_shape k) as [b E]. rewrite E. reflexivity. Qed.

Lemma into_parigot_from n m :
  repeat_fn n (fun ret => abs_macro 2 (app_macro (Var 2) [ret; unabs2 ret])) (parigot m) = parigot (n + m).
Proof.
  revert m; induction n; intros m; cbn [repeat_fn]; auto.
  assert (E : abs_macro 2 (app_macro (Var 2) [parigot m; unabs2 (parigot m)]) = parigot (S m)).
  { rewrite unabs2_parigot. reflexivity. }
  rewrite E, IHn. f_equal; lia.
Qed.
Theorem into_parigot_spec n : into_parigot n = parigot n.
Proof. unfold into_parigot. change (abs_macro 2 (Var 1)) with (parigot 0). rewrite into_parigot_from. f_equal; lia. Qed.

Lemma into_stumpfu_from_spec c k : into_stumpfu_from (S k) c (stumpfu k) = stumpfu (k + c).
Proof.
  revert k; induction c; intros k; cbn [into_stumpfu_from].
  - f_equal; lia.
  - assert (E : abs_macro 2 (app_macro (Var 2) [into_church (S k); stumpfu k]) = stumpfu (S k)).
    { rewrite into_church_spec. reflexivity. }
    rewrite E, IHc. f_equal; lia.
Qed.
Theorem into_stumpfu_spec n : into_stumpfu n = stumpfu n.
Proof. unfold into_stumpfu. change (abs_macro 2 (Var 1)) with (stumpfu 0). apply (into_stumpfu_from_spec n 0). Qed.

Lemma binstr_fuel_spec f n acc : binstr_fuel f n acc = rev (bits_of f n) ++ acc.
Proof.
  revert n acc; induction f; intros n acc; simpl; auto.
  destruct (n =? 0); simpl; auto. rewrite IHf. rewrite <- app_assoc. reflexivity.
Qed.

Lemma fold_bits l :
  fold_left (fun ret (bit : bool) => if bit then app_c (Var 1) ret else app_c (Var 2) ret) (rev l) (Var 3) = bits_term l.
Proof.
  induction l as [|b r IH]; simpl; auto.
  rewrite fold_left_app. simpl. rewrite IH. destruct b; reflexivity.
Qed.

Theorem into_binary_spec n : into_binary n = binary n.
Proof.
  unfold into_binary, binary, binstr. rewrite binstr_fuel_spec, app_nil_r, fold_bits.
  destruct (Nat.eqb_spec n 0).
  - subst. reflexivity.
  - reflexivity.
Qed.

(** ** the closed forms are closed and normal *)
Lemma closed_nf_iter n d : 2 <= d -> closed_at d (iter_app n (Var 2) (Var 1)) = true /\ nfb (iter_app n (Var 2) (Var 1)) = true.
Proof.
  intros Hd. destruct d as [|[|d]]; try lia.
  induction n; simpl; auto.
Qed.
Lemma church_closed n : closed (church n) = true.
Proof. unfold closed, church. simpl. apply (closed_nf_iter n 2); lia. Qed.
Lemma church_nf n : nfb (church n) = true.
Proof. unfold church. simpl. apply (closed_nf_iter n 2); lia. Qed.

Lemma scott_closed_at n d : closed_at d (scott n) = true.
Proof. revert d; induction n; intros d; simpl; auto. Qed.
Lemma scott_closed n : closed (scott n) = true.
Proof. apply scott_closed_at. Qed.
Lemma scott_nf n : nfb (scott n) = true.
Proof. induction n; simpl; auto. Qed.

Lemma parigot_closed_at n : forall d, closed_at d (parigot n) = true /\ closed_at (S (S d)) (body2 (parigot n)) = true.
Proof.
  induction n; intros d; simpl.
  - auto.
  - destruct (IHn (S (S d))) as [C1 C2]. rewrite C1.
    destruct (IHn d) as [_ C3]. simpl. rewrite C3. auto.
Qed.
Lemma parigot_closed n : closed (parigot n) = true.
Proof. apply (parigot_closed_at n 0). Qed.
Lemma parigot_nf n : nfb (parigot n) = true /\ nfb (body2 (parigot n)) = true.
Proof.
  induction n; simpl; auto.
  destruct IHn as [N1 N2]. rewrite N1, N2. auto.
Qed.

Lemma stumpfu_closed_at n d : closed_at d (stumpfu n) = true.
Proof.
  revert d; induction n; intros d; auto.
  change (closed_at d (stumpfu (S n))) with
    (closed_at (S (S d)) (App (App (Var 2) (church (S n))) (stumpfu n))).
  cbn [closed_at]. rewrite IHn.
  pose proof (church_closed (S n)) as C. unfold closed in C.
  rewrite (closed_at_mono 0 (S (S d)) _ ltac:(lia) C). reflexivity.
Qed.
Lemma stumpfu_closed n : closed (stumpfu n) = true.
Proof. apply stumpfu_closed_at. Qed.
Lemma stumpfu_nf n : nfb (stumpfu n) = true.
Proof.
  induction n; auto.
  change (nfb (stumpfu (S n))) with (nfb (App (App (Var 2) (church (S n))) (stumpfu n))).
  cbn [nfb is_abs negb andb]. rewrite church_nf, IHn. reflexivity.
Qed.

Lemma bits_closed_nf l : closed_at 3 (bits_term l) = true /\ nfb (bits_term l) = true.
Proof. induction l as [|b r [C N]]; simpl; auto. rewrite C, N. destruct b; auto. Qed.
Lemma binary_closed n : closed (binary n) = true.
Proof. unfold closed, binary. simpl. apply bits_closed_nf. Qed.
Lemma binary_nf n : nfb (binary n) = true.
Proof. unfold binary. simpl. apply bits_closed_nf. Qed.

(** ** decodable *)
Lemma count_iter n : count_apps 2 (iter_app n (Var 2) (Var 1)) = Some n.
Proof. induction n; simpl; auto. rewrite IHn. reflexivity. Qed.
Theorem dec_church_ok n : dec_church (church n) = Some n.
Proof. apply count_iter. Qed.
Theorem dec_scott_ok n : dec_scott (S n) (scott n) = Some n.
Proof. induction n; auto. change (dec_scott (S (S n)) (scott (S n))) with (option_map S (dec_scott (S n) (scott n))). rewrite IHn. reflexivity. Qed.
Theorem dec_parigot_ok n : dec_parigot (S n) (parigot n) = Some n.
Proof.
  induction n; auto.
  change (dec_parigot (S (S n)) (parigot (S n))) with (option_map S (dec_parigot (S n) (parigot n))).
  rewrite IHn. reflexivity.
Qed.
Theorem dec_stumpfu_ok n : dec_stumpfu (S n) (stumpfu n) = Some n.
Proof.
  induction n; auto.
  change (dec_stumpfu (S (S n)) (stumpfu (S n))) with
    (match dec_church (church (S n)), dec_stumpfu (S n) (stumpfu n) with
     | Some a, Some b => if a =? S b then Some a else None | _, _ => None end).
  rewrite dec_church_ok, IHn, Nat.eqb_refl. reflexivity.
Qed.

Lemma dec_bits_of : forall f n, n <= f -> dec_bits (bits_term (bits_of f n)) = Some n.
Proof.
  induction f; intros n Hn.
  - assert (n = 0) by lia. subst. reflexivity.
  - cbn [bits_of]. destruct (Nat.eqb_spec n 0) as [->|Hz]; [reflexivity|].
    assert (Hd : n / 2 <= f) by lia.
    cbn [bits_term]. destruct (Nat.odd n) eqn:O; cbn [dec_bits]; rewrite (IHf _ Hd); cbn [option_map]; f_equal.
    + apply Nat.odd_spec in O. destruct O as [k Hk]. lia.
    + assert (E : Nat.even n = true) by (rewrite <- Nat.negb_odd, O; reflexivity).
      apply Nat.even_spec in E. destruct E as [k Hk]. lia.
Qed.
Theorem dec_binary_ok n : dec_binary (binary n) = Some n.
Proof. unfold binary, dec_binary. apply dec_bits_of; lia. Qed.

(** ** containers *)
Theorem into_pair_spec a b : into_pair a b = pair_t a b.
Proof. reflexivity. Qed.
Theorem into_option_spec x : into_option x = match x with None => none_t | Some v => some_t v end.
Proof. destruct x; reflexivity. Qed.
Theorem into_result_spec x : into_result x = match x with inl v => ok_t v | inr v => err_t v end.
Proof. destruct x; reflexivity. Qed.
Theorem tuple_macro_spec x xs : tuple_macro x xs = tuple_t (x :: xs).
Proof. reflexivity. Qed.

Definition enc_of (e : encoding) (n : nat) : option term :=
  match e with
  | Church => Some (church n) | Scott => Some (scott n) | Parigot => Some (parigot n)
  | StumpFu => Some (stumpfu n) | Binary => None
  end.

Theorem into_signed_spec positive m e :
  into_signed positive m e =
  match enc_of e m, enc_of e 0 with
  | Some num, Some zero => Some (if positive then pair_t num zero else pair_t zero num)
  | _, _ => None
  end.
Proof.
  destruct e; simpl; unfold into_signed;
    rewrite ?into_church_spec, ?into_scott_spec, ?into_parigot_spec, ?into_stumpfu_spec; reflexivity.
Qed.

Lemma fold_left_rev_right {A B} (f : B -> A -> B) (l : list A) (x : B) :
  fold_left f (rev l) x = fold_right (fun a b => f b a) x l.
Proof. rewrite <- fold_left_rev_right. rewrite rev_involutive. reflexivity. Qed.

Theorem into_pair_list_spec xs : into_pair_list xs = pair_list xs.
Proof. unfold into_pair_list. rewrite fold_left_rev_right. induction xs; simpl; auto; try (rewrite IHxs; reflexivity). Qed.
Theorem into_church_list_spec xs : into_church_list xs = church_list xs.
Proof.
  unfold into_church_list, church_list. rewrite fold_left_rev_right. f_equal.
  change (abs_macro 2 ?t) with (Abs (Abs t)).
  induction xs; simpl; auto.
Qed.
