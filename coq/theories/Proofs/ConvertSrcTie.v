(** * The numeral constructors GENERATED from src/data/num/convert.rs (Gen/ConvertSrc.v, lib/trans_convert.py)
      are the model loops of Model/Convert.v, hence the closed forms of C12. *)
From Coq Require Import List Arith Lia. Import ListNotations.
From LC Require Import Spec.Encodings Model.Convert Gen.TermSrc Gen.ConvertSrc Proofs.TermSrcTie Proofs.Convert.

Lemma for_range_const : forall c k (f : term -> term) x, CSrc.for_range k c (fun _ r => f r) x = repeat_fn c f x.
Proof. induction c as [|c IH]; intros k f x; cbn [CSrc.for_range repeat_fn]; auto. Qed.

(** two loop bodies that agree on the states the loop can be in give the same loop *)
Lemma for_range_inv (I : term -> Prop) (f g : nat -> term -> term) :
  (forall k r, I r -> f k r = g k r /\ I (g k r)) ->
  forall c k x, I x -> CSrc.for_range k c f x = CSrc.for_range k c g x.
Proof.
  intros H; induction c as [|c IH]; intros k x Hx; cbn [CSrc.for_range]; auto.
  destruct (H k x Hx) as [E Hi]. rewrite E. apply IH; exact Hi.
Qed.

Theorem church_tie n : CSrc.into_church n = into_church n.
Proof.
  unfold CSrc.into_church, into_church. cbv zeta.
  rewrite ?Nat.sub_0_r, ?Nat.add_sub, for_range_const. reflexivity.
Qed.

Theorem scott_tie n : CSrc.into_scott n = into_scott n.
Proof.
  unfold CSrc.into_scott, into_scott. cbv zeta.
  rewrite ?Nat.sub_0_r, ?Nat.add_sub, for_range_const. reflexivity.
Qed.

Theorem parigot_tie n : CSrc.into_parigot n = into_parigot n.
Proof.
  unfold CSrc.into_parigot, into_parigot. cbv zeta. rewrite ?Nat.sub_0_r, ?Nat.add_sub.
  rewrite <- (for_range_const n 0).
  apply (for_range_inv (fun r => exists b, r = Abs (Abs b))).
  - intros k r [b ->]. split; [reflexivity|]. cbn [abs_macro]. eexists; reflexivity.
  - cbn [abs_macro]. eexists; reflexivity.
Qed.

Lemma stumpfu_range : forall c k x,
  CSrc.for_range k c (fun n ret => abs_macro 2 (app_macro (Var 2) [into_church n; ret])) x = into_stumpfu_from k c x.
Proof. induction c as [|c IH]; intros k x; cbn [CSrc.for_range into_stumpfu_from]; auto. Qed.

Theorem stumpfu_tie n : CSrc.into_stumpfu n = into_stumpfu n.
Proof.
  unfold CSrc.into_stumpfu, into_stumpfu. cbv zeta. rewrite ?Nat.sub_0_r, ?Nat.add_sub.
  rewrite <- stumpfu_range.
  apply (for_range_inv (fun _ => True)); [|exact I].
  intros k r _. split; [|exact I]. rewrite ?church_tie. reflexivity.
Qed.

(** ** C12 on the generated constructors *)
Theorem src_shapes : forall n,
  CSrc.into_church n = church n /\ CSrc.into_scott n = scott n /\ CSrc.into_parigot n = parigot n /\
  CSrc.into_stumpfu n = stumpfu n.
Proof.
  intros n. rewrite church_tie, scott_tie, parigot_tie, stumpfu_tie.
  repeat split; [apply into_church_spec|apply into_scott_spec|apply into_parigot_spec|apply into_stumpfu_spec].
Qed.
