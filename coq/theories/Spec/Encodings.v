(** * The documented shapes of the data encodings (closed forms) and independent decoders (C12) *)
From Coq Require Export NArith.
From LC Require Export Spec.Beta.

Fixpoint iter_app (n : nat) (f x : term) : term :=
  match n with 0 => x | S k => App f (iter_app k f x) end.

(** Church: λf.λx. f^n x *)
Definition church (n : nat) : term := Abs (Abs (iter_app n (Var 2) (Var 1))).

(** Scott: 0 = λz.λs.z, n+1 = λz.λs. s ⌜n⌝ *)
Fixpoint scott (n : nat) : term :=
  match n with
  | 0 => Abs (Abs (Var 2))
  | S k => Abs (Abs (App (Var 1) (scott k)))
  end.

(** Parigot: 0 = λs.λz.z, n+1 = λs.λz. s ⌜n⌝ (⌜n⌝ s z)  -- the last factor is the body of ⌜n⌝ *)
Definition body2 (t : term) : term := match t with Abs (Abs b) => b | _ => t end.
Fixpoint parigot (n : nat) : term :=
  match n with
  | 0 => Abs (Abs (Var 1))
  | S k => Abs (Abs (App (App (Var 2) (parigot k)) (body2 (parigot k))))
  end.

(** Stump-Fu: 0 = λf.λa.a, n+1 = λf.λa. f ⌜n+1⌝_church ⌜n⌝ *)
Fixpoint stumpfu (n : nat) : term :=
  match n with
  | 0 => Abs (Abs (Var 1))
  | S k => Abs (Abs (App (App (Var 2) (church (S k))) (stumpfu k)))
  end.

(** binary: λz.λo.λi. bits, least significant bit outermost: b0 = index 2 ("o"), b1 = index 1 ("i"),
    the empty numeral is index 3; zero is λλλ.3 *)
Fixpoint bits_term (bits_lsb_first : list bool) : term :=
  match bits_lsb_first with
  | [] => Var 3
  | b :: r => App (Var (if b then 1 else 2)) (bits_term r)
  end.
(** binary digits of n, least significant first, no leading zero *)
Fixpoint bits_of (fuel n : nat) : list bool :=
  match fuel with 0 => [] | S f =>
    if n =? 0 then [] else (Nat.odd n) :: bits_of f (n / 2)
  end.
Definition binary (n : nat) : term := Abs (Abs (Abs (bits_term (bits_of n n)))).

Definition tru_t : term := Abs (Abs (Var 2)).
Definition fls_t : term := Abs (Abs (Var 1)).
Definition bool_t (b : bool) : term := if b then tru_t else fls_t.
Definition pair_t (a b : term) : term := Abs (App (App (Var 1) a) b).
Definition none_t : term := Abs (Abs (Var 2)).
Definition some_t (x : term) : term := Abs (Abs (App (Var 1) x)).
Definition ok_t (x : term) : term := Abs (Abs (App (Var 2) x)).
Definition err_t (x : term) : term := Abs (Abs (App (Var 1) x)).
Definition tuple_t (xs : list term) : term := Abs (fold_left App xs (Var 1)).

(** lists (elements are closed terms) *)
Fixpoint pair_list (xs : list term) : term :=
  match xs with [] => Abs (Abs (Var 1)) | x :: r => Abs (App (App (Var 1) x) (pair_list r)) end.
Fixpoint church_list_body (xs : list term) : term :=
  match xs with [] => Var 2 | x :: r => App (App (Var 1) x) (church_list_body r) end.
Definition church_list (xs : list term) : term := Abs (Abs (church_list_body xs)).
Fixpoint scott_list (xs : list term) : term :=
  match xs with [] => Abs (Abs (Var 2)) | x :: r => Abs (Abs (App (App (Var 1) x) (scott_list r))) end.
Fixpoint parigot_list (xs : list term) : term :=
  match xs with
  | [] => Abs (Abs (Var 2))
  | x :: r => Abs (Abs (App (App (App (Var 1) x) (parigot_list r)) (body2 (parigot_list r))))
  end.

(** ** decoders: structural readers, written independently of the encoders *)
Fixpoint count_apps (f : nat) (t : term) : option nat :=
  match t with
  | Var 1 => Some 0
  | App (Var g) r => if g =? f then option_map S (count_apps f r) else None
  | _ => None
  end.
Definition dec_church (t : term) : option nat :=
  match t with Abs (Abs b) => count_apps 2 b | _ => None end.

Fixpoint dec_scott (fuel : nat) (t : term) : option nat :=
  match fuel with 0 => None | S f =>
    match t with
    | Abs (Abs (Var 2)) => Some 0
    | Abs (Abs (App (Var 1) p)) => option_map S (dec_scott f p)
    | _ => None
    end
  end.

Fixpoint dec_parigot (fuel : nat) (t : term) : option nat :=
  match fuel with 0 => None | S f =>
    match t with
    | Abs (Abs (Var 1)) => Some 0
    | Abs (Abs (App (App (Var 2) p) _)) => option_map S (dec_parigot f p)
    | _ => None
    end
  end.

Fixpoint dec_stumpfu (fuel : nat) (t : term) : option nat :=
  match fuel with 0 => None | S f =>
    match t with
    | Abs (Abs (Var 1)) => Some 0
    | Abs (Abs (App (App (Var 2) c) p)) =>
        match dec_church c, dec_stumpfu f p with
        | Some a, Some b => if a =? S b then Some a else None
        | _, _ => None
        end
    | _ => None
    end
  end.

Fixpoint dec_bits (t : term) : option nat :=
  match t with
  | Var 3 => Some 0
  | App (Var 2) r => option_map (fun v => 2 * v) (dec_bits r)
  | App (Var 1) r => option_map (fun v => 2 * v + 1) (dec_bits r)
  | _ => None
  end.
Definition dec_binary (t : term) : option nat :=
  match t with Abs (Abs (Abs b)) => dec_bits b | _ => None end.

(** the same encoding and decoder over binary numbers [N], so that numerals beyond what a unary [nat] can
    represent in practice (2^32, usize::MAX) can be computed; [binary_N n = binary (N.to_nat n)] is proved
    in Proofs/BinaryArith.v *)
Fixpoint bits_of_pos (p : positive) : list bool :=
  match p with xH => [true] | xO q => false :: bits_of_pos q | xI q => true :: bits_of_pos q end.
Definition bits_of_N (n : N) : list bool := match n with N0 => [] | Npos p => bits_of_pos p end.
Definition binary_N (n : N) : term := Abs (Abs (Abs (bits_term (bits_of_N n)))).
Fixpoint dec_bits_N (t : term) : option N :=
  match t with
  | Var 3 => Some 0%N
  | App (Var 2) r => option_map N.double (dec_bits_N r)
  | App (Var 1) r => option_map N.succ_double (dec_bits_N r)
  | _ => None
  end.
Definition dec_binary_N (t : term) : option N :=
  match t with Abs (Abs (Abs b)) => dec_bits_N b | _ => None end.
(** a number from its bits, most significant first (used by the test driver to read large numbers) *)
Definition N_of_bits_msb (bs : list bool) : N :=
  fold_left (fun acc (b : bool) => if b then N.succ_double acc else N.double acc) bs 0%N.
