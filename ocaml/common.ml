(* Replays the implementation's case file on the extracted Coq model (correspondence) and on the
   extracted Spec oracles (direct check of the implementation's outputs).
   Output: FAIL lines   FAIL <TAB> tag <TAB> detail <TAB> original line
           a final      STATS <TAB> json
   tags:  corr:<suite>            model and implementation disagree
          oracle:<Cxx>:<what>     the implementation's output violates the Spec-level oracle of Cxx *)
open Lc_model

let nat_of_int (n : int) : nat =
  let r = ref O in
  for _ = 1 to n do r := S !r done;
  !r
let int_of_nat (n : nat) : int =
  let rec go acc = function O -> acc | S m -> go (acc + 1) m in
  go 0 n

(* ---------- term (de)serialisation: V<n> | L t | A l r *)
let parse_term (s : string) : term =
  let toks = Array.of_list (List.filter (fun x -> x <> "") (String.split_on_char ' ' s)) in
  let pos = ref 0 in
  let rec go () =
    let t = toks.(!pos) in
    incr pos;
    if t = "L" then Abs (go ())
    else if t = "A" then (let l = go () in let r = go () in App (l, r))
    else Var (nat_of_int (int_of_string (String.sub t 1 (String.length t - 1))))
  in
  go ()

let ser (t : term) : string =
  let b = Buffer.create 64 in
  let first = ref true in
  let sp () = if !first then first := false else Buffer.add_char b ' ' in
  let rec go = function
    | Var n -> sp (); Buffer.add_char b 'V'; Buffer.add_string b (string_of_int (int_of_nat n))
    | Abs t -> sp (); Buffer.add_char b 'L'; go t
    | App (l, r) -> sp (); Buffer.add_char b 'A'; go l; go r
  in
  go t; Buffer.contents b

let order_of_string = function
  | "NOR" -> NOR | "CBN" -> CBN | "HSP" -> HSP | "HNO" -> HNO
  | "APP" -> APP | "CBV" -> CBV | "HAP" -> HAP | s -> failwith ("order " ^ s)

let rec tsize = function Var _ -> 1 | Abs b -> 1 + tsize b | App (l, r) -> 1 + tsize l + tsize r

(* ---------- bookkeeping *)
let fails = ref 0
let fail_tags : (string, int) Hashtbl.t = Hashtbl.create 16
let counts : (string, int) Hashtbl.t = Hashtbl.create 16
let bump tbl k = Hashtbl.replace tbl k (1 + (try Hashtbl.find tbl k with Not_found -> 0))
let max_fail_lines = 200
let fail tag detail line =
  incr fails; bump fail_tags tag;
  if Hashtbl.find fail_tags tag <= max_fail_lines then
    Printf.printf "FAIL\t%s\t%s\t%s\n" tag detail line
let distinct : (string, unit) Hashtbl.t = Hashtbl.create 1024
let nontrivial = ref 0
let note_nontrivial key = if not (Hashtbl.mem distinct key) then (Hashtbl.add distinct key (); incr nontrivial)
let samples : string list ref = ref []
let nsamples = ref 0
let sample s = if !nsamples < 12 then (samples := s :: !samples; incr nsamples)

let big_fuel = nat_of_int 400000
let backslash = ref false

let subset (a : nat list) (b : nat list) = List.for_all (fun x -> List.mem x b) a
let mem_term (t : term) (l : term list) = List.exists (fun u -> term_eqb t u) l

(* bounded check that u is reachable from t in exactly k beta steps (k <= 3) *)
let rec reach k t u =
  if k = 0 then term_eqb t u
  else List.exists (fun v -> reach (k - 1) v u) (reducts t)

(* Spec normaliser: leftmost-outermost iteration, bounded *)
let normalize (t : term) (max_steps : int) (max_size : int) : term option =
  let rec go t n =
    if n > max_steps || tsize t > max_size then None
    else match step_of NOR t with None -> Some t | Some u -> go u (n + 1)
  in
  go t 0

