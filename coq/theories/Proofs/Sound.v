(** * Consequences of the characterisation: genuine beta steps, normal forms, free variables *)
From LC Require Import Model.Reduction Proofs.Apply Proofs.Generic Proofs.Char.

(** ** every step of every strategy is a beta step *)
Lemma os_sound p x y : (forall o u, step_g o x = Some u -> step x u) -> os p x = Some y -> step x y.
Proof. intros IH. destruct p; simpl; [apply IH|discriminate]. Qed.

Lemma step_g_sound : forall t o u, step_g o t = Some u -> step t u.
Proof.
  induction t as [i|b IH|l IHl r IHr]; intros o u H.
  - discriminate.
  - simpl in H. destruct (under (spec_of o)); try discriminate.
    destruct (step_g o b) eqn:E; inversion H; subst. constructor. eauto.
  - rewrite sg_app in H.
    destruct (os (preL (spec_of o)) l) eqn:E1.
    { inversion H; subst. constructor. eapply os_sound; eauto. }
    destruct (os (preR (spec_of o)) r) eqn:E2.
    { inversion H; subst. constructor. eapply os_sound; eauto. }
    destruct l as [j|lb|l1 l2].
    + destruct (os (postL (spec_of o)) (Var j)) eqn:E3.
      { inversion H; subst. constructor. eapply os_sound; eauto. }
      destruct (os (postR (spec_of o)) r) eqn:E4; inversion H; subst.
      constructor. eapply os_sound; eauto.
    + inversion H; subst. constructor.
    + destruct (os (postL (spec_of o)) (App l1 l2)) eqn:E3.
      { inversion H; subst. constructor. eapply os_sound; eauto. }
      destruct (os (postR (spec_of o)) r) eqn:E4; inversion H; subst.
      constructor. eapply os_sound; eauto.
Qed.

Lemma step_of_sound o t u : step_of o t = Some u -> step t u.
Proof. rewrite <- step_g_spec. apply step_g_sound. Qed.

Lemma iter_steps f (R : term -> term -> Prop) : (forall t u, f t = Some u -> R t u) ->
  forall n t u, iter f n t = Some u -> steps R n t u.
Proof.
  intros H n; induction n; simpl; intros t u E.
  - inversion E; constructor.
  - destruct (f t) eqn:F; try discriminate. econstructor; eauto.
Qed.

(** ** the main corollary: what [reduce] returns *)
Theorem reduce_char fuel o limit t t' c :
  reduce_m fuel o limit t = Some (t', c) ->
  iter (step_of o) c t = Some t' /\ (limit <> 0 -> c <= limit) /\
  (step_of o t' = None \/ (limit <> 0 /\ c = limit)).
Proof.
  rewrite reduce_m_g. intros H. apply char_g in H; [|lia].
  destruct H as (_ & H2 & H3 & H4). rewrite Nat.sub_0_r in H2. cbn [os] in *.
  assert (E : forall n x, iter (step_g o) n x = iter (step_of o) n x).
  { induction n; simpl; intros; auto. rewrite step_g_spec. destruct (step_of o x); auto. }
  rewrite E in H2. rewrite step_g_spec in H4. auto.
Qed.

Theorem reduce_steps fuel o limit t t' c :
  reduce_m fuel o limit t = Some (t', c) -> steps step c t t'.
Proof.
  intros H. apply reduce_char in H. destruct H as (H & _).
  eapply iter_steps; eauto. intros; eapply step_of_sound; eauto.
Qed.

(** ** stuck = the documented normal form *)
Lemma abs_stuck o b : under (spec_of o) = true -> (step_g o (Abs b) = None <-> step_g o b = None).
Proof. intros U. simpl. rewrite U. destruct (step_g o b); simpl; split; auto; discriminate. Qed.

Lemma app_stuck_iff o l r : step_g o (App l r) = None <->
  os (preL (spec_of o)) l = None /\ os (preR (spec_of o)) r = None /\ is_abs l = false /\
  os (postL (spec_of o)) l = None /\ os (postR (spec_of o)) r = None.
Proof. split; [apply app_stuck|]. intros (?&?&?&?&?). apply A6; auto. Qed.

Ltac stuck_app := rewrite app_stuck_iff; cbn [os spec_of preL preR postL postR].

Lemma neutral_not_abs t : neutralb t = true -> is_abs t = false.
Proof. destruct t; simpl; auto; discriminate. Qed.

Lemma nfb_app l r : nfb (App l r) = true <-> is_abs l = false /\ nfb l = true /\ nfb r = true.
Proof. simpl. rewrite !andb_true_iff, negb_true_iff. tauto. Qed.
Lemma wnfb_app l r : wnfb (App l r) = true <-> is_abs l = false /\ wnfb l = true /\ wnfb r = true.
Proof. simpl. rewrite !andb_true_iff, negb_true_iff. tauto. Qed.

Lemma cbn_stuck_g t : step_g CBN t = None <-> whnfb t = true.
Proof.
  unfold whnfb. induction t as [i|b IH|l IHl r IHr].
  - simpl; tauto.
  - simpl; tauto.
  - stuck_app. rewrite IHl. cbn [is_abs neutralb orb]. split.
    + intros (H & _ & A & _). rewrite A in H. exact H.
    + intros H. rewrite H, orb_true_r, (neutral_not_abs _ H). auto.
Qed.

Lemma nfb_neutral_or_abs t : nfb t = true -> is_abs t = false -> neutralb t = true.
Proof.
  induction t as [i|b IH|l IHl r IHr]; intros H A; auto; try discriminate.
  apply nfb_app in H. destruct H as (Al & Nl & _). simpl. auto.
Qed.

Lemma whnf_of_nf t : nfb t = true -> whnfb t = true.
Proof. intros H. unfold whnfb. destruct (is_abs t) eqn:A; auto. apply nfb_neutral_or_abs; auto. Qed.

Lemma nor_stuck_g t : step_g NOR t = None <-> nfb t = true.
Proof.
  induction t as [i|b IH|l IHl r IHr].
  - simpl; tauto.
  - rewrite abs_stuck by reflexivity. exact IH.
  - stuck_app. rewrite nfb_app, IHl, IHr, cbn_stuck_g. split.
    + tauto.
    + intros (A & Nl & Nr). repeat split; auto. apply whnf_of_nf; auto.
Qed.

Lemma hsp_stuck_g t : step_g HSP t = None <-> hnfb t = true.
Proof.
  induction t as [i|b IH|l IHl r IHr].
  - simpl; tauto.
  - rewrite abs_stuck by reflexivity. exact IH.
  - stuck_app. rewrite IHl. cbn [hnfb]. split.
    + intros (H & _ & A & _). destruct l; simpl in *; auto; discriminate.
    + intros H. rewrite (neutral_not_abs _ H). repeat split; auto. destruct l; simpl in *; auto; discriminate.
Qed.

Lemma hnf_of_nf t : nfb t = true -> hnfb t = true.
Proof.
  induction t as [i|b IH|l IHl r IHr]; intros H; auto.
  apply nfb_app in H. destruct H as (A & N & _). simpl. apply nfb_neutral_or_abs; auto.
Qed.

Lemma hno_stuck_g t : step_g HNO t = None <-> nfb t = true.
Proof.
  induction t as [i|b IH|l IHl r IHr].
  - simpl; tauto.
  - rewrite abs_stuck by reflexivity. exact IH.
  - stuck_app. rewrite nfb_app, IHl, IHr, hsp_stuck_g. split.
    + tauto.
    + intros (A & Nl & Nr). repeat split; auto. apply hnf_of_nf; auto.
Qed.

Lemma cbv_stuck_g t : step_g CBV t = None <-> wnfb t = true.
Proof.
  induction t as [i|b IH|l IHl r IHr].
  - simpl; tauto.
  - simpl; tauto.
  - stuck_app. rewrite wnfb_app, IHl, IHr. tauto.
Qed.

Lemma app_stuck_g t : step_g APP t = None <-> nfb t = true.
Proof.
  induction t as [i|b IH|l IHl r IHr].
  - simpl; tauto.
  - rewrite abs_stuck by reflexivity. exact IH.
  - stuck_app. rewrite nfb_app, IHl, IHr. tauto.
Qed.

Lemma wnf_of_nf t : nfb t = true -> wnfb t = true.
Proof.
  induction t as [i|b IH|l IHl r IHr]; intros H; auto.
  apply nfb_app in H. apply wnfb_app. destruct H as (?&?&?). auto.
Qed.

Lemma hap_stuck_g t : step_g HAP t = None <-> nfb t = true.
Proof.
  induction t as [i|b IH|l IHl r IHr].
  - simpl; tauto.
  - rewrite abs_stuck by reflexivity. exact IH.
  - stuck_app. rewrite nfb_app, IHl, IHr, cbv_stuck_g. split.
    + tauto.
    + intros (A & Nl & Nr). repeat split; auto. apply wnf_of_nf; auto.
Qed.

Theorem stuck_nf o t : step_of o t = None <-> nf_of o t = true.
Proof.
  rewrite <- step_g_spec. destruct o; simpl nf_of.
  - apply nor_stuck_g. - apply cbn_stuck_g. - apply hsp_stuck_g. - apply hno_stuck_g.
  - apply app_stuck_g. - apply cbv_stuck_g. - apply hap_stuck_g.
Qed.

(** ** free variables and UD never grow under beta *)
Lemma step_fv_at t u : step t u -> forall d, incl (fv_at d u) (fv_at d t).
Proof.
  induction 1; intros d; simpl.
  - pose proof (fv_at_subst 1 d a b) as H. replace (d + 1 - 1) with d in H by lia. apply H; lia.
  - apply IHstep.
  - apply incl_app; [apply incl_appl, IHstep|apply incl_appr, incl_refl].
  - apply incl_app; [apply incl_appl, incl_refl|apply incl_appr, IHstep].
Qed.

Lemma step_has_ud t u : step t u -> has_ud u = true -> has_ud t = true.
Proof.
  induction 1; simpl; auto.
  - intros H. apply has_ud_subst in H; [|lia]. destruct H as [->| ->]; auto. apply orb_true_r.
  - rewrite !orb_true_iff. intuition.
  - rewrite !orb_true_iff. intuition.
Qed.

Lemma steps_fv n t u : steps step n t u -> incl (fv u) (fv t) /\ (has_ud u = true -> has_ud t = true).
Proof.
  induction 1 as [|n x y z S _ [IH1 IH2]].
  - split; auto. apply incl_refl.
  - split.
    + eapply incl_tran; [exact IH1|]. apply step_fv_at; auto.
    + intros H. eapply step_has_ud; eauto.
Qed.

Lemma closed_fv t : closed t = true <-> fv t = [].
Proof. apply closed_at_fv. Qed.
