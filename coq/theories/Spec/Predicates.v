(** * Independent definitions of the term predicates (C18) *)
From LC Require Export Spec.Beta.

(** has a free variable: some index exceeds the number of enclosing binders, or is 0 *)
Definition has_fv_spec (t : term) : bool := negb (closed t) || has_ud t.

(** the body under the leading lambdas *)
Fixpoint strip (t : term) : term := match t with Abs b => strip b | _ => t end.

(** Supercombinator (the definition the crate's documentation links to):
    no free variables, and of the form λx1…xn.E (n >= 0, E not an abstraction)
    where every abstraction in E is again a supercombinator. *)
Inductive supercomb : term -> Prop :=
| sc_intro t : closed t = true -> all_abs_sc (strip t) -> supercomb t
with all_abs_sc : term -> Prop :=
| aa_var i : all_abs_sc (Var i)
| aa_app l r : all_abs_sc l -> all_abs_sc r -> all_abs_sc (App l r)
| aa_abs b : supercomb (Abs b) -> all_abs_sc (Abs b).

(** number of abstractions on each root-to-leaf path *)
Fixpoint leaf_depths (d : nat) (t : term) : list nat :=
  match t with
  | Var _ => [d]
  | Abs b => leaf_depths (S d) b
  | App l r => leaf_depths d l ++ leaf_depths d r
  end.
Definition max_depth_spec (t : term) : nat := list_max (leaf_depths 0 t).

(** executable reading of [supercomb] for the run-time oracle (fuel: any bound on the size) *)
Fixpoint supercombb (fuel : nat) (t : term) : bool :=
  match fuel with
  | 0 => false
  | S f =>
      closed t &&
      (fix aa (e : term) : bool :=
         match e with
         | Var _ => true
         | App l r => aa l && aa r
         | Abs _ => supercombb f e
         end) (strip t)
  end.
